/-!
# Model of the generated comparison / hash / repr methods of a `pane` dataclass

Source modelled: `/repo/pane/classes.py`
  `_make_eq`, `_make_ord`, `_make_hash`, `_maybe_make_hash`, `_hash_action`, `PaneBase.__repr__`.

Import-free (Lean core only), computable.

The operations of the *field values* are parameters:
* `eqv : α → α → Bool`   Python `==` on field values
* `gt  : α → α → Bool`   Python `>`  on field values
* `hsh : α → Int`        Python `hash` on field values
* `comb : List Int → Int` the hash of a tuple as a function of its elements' hashes
* `showVal : α → String` Python `repr` on field values
-/

namespace PaneModel.Order

/-- The flags of a `Field` that matter for the generated dunder methods. -/
structure FieldFlags where
  name : String
  compare : Bool := true
  hash : Bool := true
  repr : Bool := true
  deriving Repr, DecidableEq

/-- An instance of a pane dataclass: its class (twice: modulo generic parameters and exactly)
and its field values in field order. -/
structure Inst (α : Type) where
  /-- the un-subscripted class (`C` for both `C` and `C[int]`):
      `cls.__dict__.get('__origin__', cls)` -/
  origin : Nat
  /-- the exact class object (`C` and `C[int]` differ): `self.__class__` -/
  exact : Nat
  /-- field values, in field order -/
  vals : List α
  deriving Repr

variable {α : Type}

/-! ## `__eq__` -/

/-- The fields zipped with both instances' values: the iteration space of
`for f in fields: getattr(self, f.name) … getattr(other, f.name)`. -/
def zip3 (fs : List FieldFlags) (as bs : List α) : List (FieldFlags × α × α) :=
  fs.zip (as.zip bs)

/-- The projection to compare-fields: `((self.f, other.f) for f in fields if f.compare)`. -/
def cmpPairs (fs : List FieldFlags) (as bs : List α) : List (α × α) :=
  ((zip3 fs as bs).filter (fun z => z.1.compare)).map (fun z => z.2)

/-- `_make_eq.__eq__`:
```
if origin(self.__class__) != origin(other.__class__): return False
return all(getattr(self, f.name) == getattr(other, f.name) for f in fields if f.compare)
``` -/
def instEq (fs : List FieldFlags) (eqv : α → α → Bool) (a b : Inst α) : Bool :=
  if a.origin != b.origin then false
  else (cmpPairs fs a.vals b.vals).all (fun p => eqv p.1 p.2)

/-! ## `_pane_ord` and the four rich comparisons -/

/-- The `for f in fields:` loop of `_pane_ord`. -/
def ordLoop (eqv gt : α → α → Bool) : List (FieldFlags × α × α) → Int
  | [] => 0                                            -- return 0
  | (f, x, y) :: rest =>
    if !f.compare then ordLoop eqv gt rest             -- if not f.compare: continue
    else if eqv x y then ordLoop eqv gt rest           -- if self.f == other.f: continue
    else if gt x y then 1 else -1                      -- return 1 if self.f > other.f else -1

/-- `_make_ord._pane_ord`; `none` models `NotImplemented`:
```
if _unsubscripted(self.__class__) != _unsubscripted(other.__class__): return NotImplemented
```
(the same class test as `__eq__`: the generic parameters are ignored). -/
def paneOrd (fs : List FieldFlags) (eqv gt : α → α → Bool) (a b : Inst α) : Option Int :=
  if a.origin != b.origin then none
  else some (ordLoop eqv gt (zip3 fs a.vals b.vals))

/-- `__lt__`: `NotImplemented if o is NotImplemented else o < 0`. -/
def lt (fs : List FieldFlags) (eqv gt : α → α → Bool) (a b : Inst α) : Option Bool :=
  (paneOrd fs eqv gt a b).map (fun o => decide (o < 0))

/-- `__le__`: `… o <= 0`. -/
def le (fs : List FieldFlags) (eqv gt : α → α → Bool) (a b : Inst α) : Option Bool :=
  (paneOrd fs eqv gt a b).map (fun o => decide (o ≤ 0))

/-- `__gt__`: `… o > 0`. -/
def gt' (fs : List FieldFlags) (eqv gt : α → α → Bool) (a b : Inst α) : Option Bool :=
  (paneOrd fs eqv gt a b).map (fun o => decide (o > 0))

/-- `__ge__`: `… o >= 0`. -/
def ge (fs : List FieldFlags) (eqv gt : α → α → Bool) (a b : Inst α) : Option Bool :=
  (paneOrd fs eqv gt a b).map (fun o => decide (o ≥ 0))

/-! ## `__hash__` -/

/-- `_make_hash.__hash__`: `hash(tuple(getattr(self, f.name) for f in fields if f.hash))`. -/
def instHash (fs : List FieldFlags) (hsh : α → Int) (comb : List Int → Int) (a : Inst α) : Int :=
  comb ((((fs.zip a.vals).filter (fun p => p.1.hash)).map (fun p => p.2)).map hsh)

/-- What `_maybe_make_hash` does with `cls.__hash__`. -/
inductive HashAct
  /-- `None` in the table: leave `__hash__` untouched -/
  | leave
  /-- `_set_hash_none` / `_hash_set_none`: `cls.__hash__ = None` -/
  | setNone
  /-- `_make_hash` / `_hash_add`: install the generated `__hash__` -/
  | makeHash
  /-- `_hash_exception`: raise `TypeError` -/
  | exception
  deriving Repr, DecidableEq

/-- Key of `_hash_action`: `(unsafe_hash, eq, frozen, has_explicit_hash)`. -/
abbrev HashKey := Bool × Bool × Bool × Bool

private abbrev F := false
private abbrev T := true

/-- `pane.classes._hash_action`, row by row. -/
def paneHashTable : List (HashKey × HashAct) := [
  ((F, F, F, F), .leave),
  ((F, F, F, T), .leave),
  ((F, F, T, F), .leave),
  ((F, F, T, T), .leave),
  ((F, T, F, F), .setNone),
  ((F, T, F, T), .leave),
  ((F, T, T, F), .makeHash),
  ((F, T, T, T), .leave),
  ((T, F, F, F), .makeHash),
  ((T, F, F, T), .exception),
  ((T, F, T, F), .makeHash),
  ((T, F, T, T), .exception),
  ((T, T, F, F), .makeHash),
  ((T, T, F, T), .exception),
  ((T, T, T, F), .makeHash),
  ((T, T, T, T), .exception)]

/-- CPython 3.12 `dataclasses._hash_action` (`Lib/dataclasses.py` l. 900-916), row by row;
`_hash_set_none ↦ setNone`, `_hash_add ↦ makeHash`, `_hash_exception ↦ exception`. -/
def stdlibHashTable : List (HashKey × HashAct) := [
  ((F, F, F, F), .leave),
  ((F, F, F, T), .leave),
  ((F, F, T, F), .leave),
  ((F, F, T, T), .leave),
  ((F, T, F, F), .setNone),
  ((F, T, F, T), .leave),
  ((F, T, T, F), .makeHash),
  ((F, T, T, T), .leave),
  ((T, F, F, F), .makeHash),
  ((T, F, F, T), .exception),
  ((T, F, T, F), .makeHash),
  ((T, F, T, T), .exception),
  ((T, T, F, F), .makeHash),
  ((T, T, F, T), .exception),
  ((T, T, T, F), .makeHash),
  ((T, T, T, T), .exception)]

/-- Dictionary lookup `tbl[key]`; `none` models `KeyError`. -/
def hashLookup (tbl : List (HashKey × HashAct)) (key : HashKey) : Option HashAct :=
  tbl.lookup key

/-- `_hash_action[(unsafe_hash, eq, frozen, has_explicit_hash)]` of pane.
(The `getD` default is never used: the table is total, see `paneHashTable_total`.) -/
def paneHashAction (unsafeHash eq frozen explicit : Bool) : HashAct :=
  (hashLookup paneHashTable (unsafeHash, eq, frozen, explicit)).getD .leave

/-- `_hash_action[unsafe_hash, eq, frozen, has_explicit_hash]` of CPython `dataclasses`. -/
def stdlibHashAction (unsafeHash eq frozen explicit : Bool) : HashAct :=
  (hashLookup stdlibHashTable (unsafeHash, eq, frozen, explicit)).getD .leave

/-! ## `__repr__` -/

/-- `PaneBase.__repr__`:
```
inside = ", ".join(f"{field.name}={getattr(self, field.name)!r}" for field in fields if field.repr)
return f"{self.__class__.__name__}({inside})"
``` -/
def reprInst (clsName : String) (fs : List FieldFlags) (showVal : α → String) (a : Inst α) :
    String :=
  clsName ++ "(" ++
    ", ".intercalate
      (((fs.zip a.vals).filter (fun p => p.1.repr)).map (fun p => p.1.name ++ "=" ++ showVal p.2))
    ++ ")"

/-! ## Sanity checks -/

section Sanity

private def fsXY : List FieldFlags := [{ name := "x" }, { name := "y", compare := false, hash := false }]
private def fsXYZ : List FieldFlags :=
  [{ name := "x" }, { name := "y", compare := false, hash := false, repr := false }, { name := "z" }]
private def ieq : Int → Int → Bool := fun x y => x == y
private def igt : Int → Int → Bool := fun x y => decide (x > y)
private def ihsh : Int → Int := id
private def icomb : List Int → Int := fun l => l.foldl (fun acc h => 31 * acc + h) 7

private def p12 : Inst Int := ⟨0, 0, [1, 2]⟩
private def p13 : Inst Int := ⟨0, 0, [1, 3]⟩
private def p22 : Inst Int := ⟨0, 0, [2, 2]⟩
/-- same values as `p12` but of class `C[int]`: same origin, different exact class -/
private def p12' : Inst Int := ⟨0, 1, [1, 2]⟩
/-- a different class altogether -/
private def q12 : Inst Int := ⟨5, 5, [1, 2]⟩

/-- info: true -/
#guard_msgs in #eval instEq fsXY ieq p12 p13          -- y is not compared
/-- info: false -/
#guard_msgs in #eval instEq fsXY ieq p12 p22
/-- info: true -/
#guard_msgs in #eval instEq fsXY ieq p12 p12'         -- C == C[int] instance-wise
/-- info: false -/
#guard_msgs in #eval instEq fsXY ieq p12 q12
/-- info: some 0 -/
#guard_msgs in #eval paneOrd fsXY ieq igt p12 p13
/-- info: some (-1) -/
#guard_msgs in #eval paneOrd fsXY ieq igt p12 p22
/-- info: some 1 -/
#guard_msgs in #eval paneOrd fsXY ieq igt p22 p12
/-- info: some 0 -/
#guard_msgs in #eval paneOrd fsXY ieq igt p12 p12'    -- C / C[int] are comparable (same un-subscripted class)
/-- info: none -/
#guard_msgs in #eval paneOrd fsXY ieq igt p12 q12     -- NotImplemented across unrelated classes
/-- info: [some true, some true, some false, some false] -/
#guard_msgs in #eval [lt fsXY ieq igt p12 p22, le fsXY ieq igt p12 p22,
                      gt' fsXY ieq igt p12 p22, ge fsXY ieq igt p12 p22]
/-- info: [some false, some true, some false, some true] -/
#guard_msgs in #eval [lt fsXY ieq igt p12 p13, le fsXY ieq igt p12 p13,
                      gt' fsXY ieq igt p12 p13, ge fsXY ieq igt p12 p13]
/-- info: [none, none, none, none] -/
#guard_msgs in #eval [lt fsXY ieq igt p12 q12, le fsXY ieq igt p12 q12,
                      gt' fsXY ieq igt p12 q12, ge fsXY ieq igt p12 q12]
/-- info: true -/
#guard_msgs in #eval instHash fsXY ihsh icomb p12 == instHash fsXY ihsh icomb p13
/-- info: false -/
#guard_msgs in #eval instHash fsXY ihsh icomb p12 == instHash fsXY ihsh icomb p22
/-- info: "P(x=1, y=2)" -/
#guard_msgs in #eval reprInst "P" fsXY (fun (v : Int) => toString v) p12
/-- info: "P(x=1, z=3)" -/
#guard_msgs in #eval reprInst "P" fsXYZ (fun (v : Int) => toString v) ⟨0, 0, [1, 2, 3]⟩
/-- info: "P()" -/
#guard_msgs in #eval reprInst "P" [] (fun (v : Int) => toString v) ⟨0, 0, []⟩
/-- info: PaneModel.Order.HashAct.setNone -/
#guard_msgs in #eval paneHashAction false true false false   -- default options: unhashable
/-- info: PaneModel.Order.HashAct.makeHash -/
#guard_msgs in #eval paneHashAction false true true false    -- eq + frozen: generated hash
/-- info: PaneModel.Order.HashAct.exception -/
#guard_msgs in #eval paneHashAction true true false true
/-- info: 16 -/
#guard_msgs in #eval paneHashTable.length

end Sanity

end PaneModel.Order
