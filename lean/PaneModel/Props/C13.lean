import PaneModel.Lemmas.CondProofs
import PaneModel.Props.C03
/-!
# C13 — Conditions restrict exactly by their predicate

`Annotated[T, c₁, …, cₙ]` accepts a value exactly when `T` accepts it and every condition holds on the
**converted** value; the combinators (`&`, `|`, `~`, `Condition.all`, `Condition.any`) and the stock
conditions (`val_range`, `len_range`, `Positive`, `Negative`, `NonNegative`, `NonPositive`, `Finite`,
`Empty`, `NonEmpty`) are the corresponding Boolean / arithmetic predicates, range ends inclusive.  A
predicate that raises is a failed condition (a `ConvertError` carrying the cause), the accepted value
is returned unchanged, and serialisation ignores conditions.

Facts read from the Python source enter through `Facts.*`: each theorem that needs one either takes it
as a hypothesis (with a `decide`d corollary next to it) or closes it by `rfl`/`decide` on the fact.
-/
namespace PaneModel

variable {E : Ext}

/-- "the predicate evaluates to `True`" (a raise and `False` both count as not holding) -/
def holds (E : Ext) (c : CondExpr) (x : Val) : Bool :=
  match evalCond E Facts.stockCond c x with
  | .ok true => true
  | _ => false

theorem holds_iff (c : CondExpr) (x : Val) :
    holds E c x = true ↔ evalCond E Facts.stockCond c x = .ok true := by
  unfold holds
  split
  · rename_i h; simp [h]
  · rename_i h; exact ⟨fun h' => (nomatch h'), fun h' => absurd h' h⟩

/-! ## The guard facts -/

theorem C13_condTry_fact : Facts.catches .condTry = some .all := by decide
theorem C13_condCollect_fact : Facts.catches .condCollect = some .all := by decide

/-! ## Acceptance -/

/-- **C13 (acceptance).** `Annotated[T, c]` returns `x` exactly when `T` returns `x` and the predicate is
true on `x` — the *converted* value, which is returned unchanged.  (No guard fact is needed for this
direction: whatever the `except` clause around the predicate catches, a raise never yields a value.) -/
theorem C13_accept_iff (inner : Conv) (c : CondExpr) (fmt : ExpFmt) (v x : Val) :
    tryC E (.cond inner c fmt) v = .ok x ↔
      tryC E inner v = .ok x ∧ evalCond E Facts.stockCond c x = .ok true := by
  simp only [tryC]
  cases h1 : tryC E inner v with
  | interrupt => simp
  | leak e => simp
  | ok y =>
    simp only [Outcome.bind_ok]
    cases hev : evalCond E Facts.stockCond c y with
    | ok b =>
      cases b
      · simp only [guardTry_ok]
        constructor
        · intro h; cases h
        · rintro ⟨h, h'⟩; cases h; rw [hev] at h'; cases h'
      · simp only [guardTry_ok]
        constructor
        · intro h; cases h; exact ⟨rfl, hev⟩
        · rintro ⟨h, _⟩; cases h; rfl
    | error ex =>
      constructor
      · intro h
        cases hg : guardTry (Facts.catches .condTry) (Except.error ex : Except Exc Bool) with
        | ok b => exact absurd hg guardTry_error_ne_ok
        | interrupt => rw [hg] at h; cases h
        | leak e => rw [hg] at h; cases h
      · rintro ⟨h, h'⟩; cases h; rw [hev] at h'; cases h'

/-- the whole fast pass of `Annotated[T, c]`, under the guard fact: the inner outcome, filtered by the
predicate; `False` and a raise are both `ParseInterrupt` -/
theorem C13_try_eq (hT : Facts.catches .condTry = some .all) (inner : Conv) (c : CondExpr) (fmt : ExpFmt)
    (v : Val) :
    tryC E (.cond inner c fmt) v =
      (tryC E inner v).bind fun x => if holds E c x then .ok x else .interrupt := by
  simp only [tryC]
  cases h1 : tryC E inner v with
  | interrupt => rfl
  | leak e => rfl
  | ok y =>
    simp only [Outcome.bind_ok]
    cases hev : evalCond E Facts.stockCond c y with
    | ok b =>
      cases b
      · have : holds E c y = false := by simp [holds, hev]
        simp [this]
      · have : holds E c y = true := by simp [holds, hev]
        simp [this]
    | error ex =>
      have : holds E c y = false := by simp [holds, hev]
      simp [this, hT, guardTry, Catch.catches]

theorem C13_try_eq' (inner : Conv) (c : CondExpr) (fmt : ExpFmt) (v : Val) :
    tryC E (.cond inner c fmt) v =
      (tryC E inner v).bind fun x => if holds E c x then .ok x else .interrupt :=
  C13_try_eq C13_condTry_fact inner c fmt v

/-- an accepted value has no error tree -/
theorem C13_accept_no_tree (inner : Conv) (c : CondExpr) (fmt : ExpFmt) (v x : Val)
    (h1 : tryC E inner v = .ok x) (h2 : evalCond E Facts.stockCond c x = .ok true) :
    colC E (.cond inner c fmt) v = .ok none := by
  simp only [colC, h1, h2]

/-! ## Failure -/

/-- **C13 (a raising predicate is a failed condition).** The fast pass raises `ParseInterrupt`; the
diagnostic pass reports `ConditionFailed` on the ORIGINAL value `v`, with the cause. -/
theorem C13_raise_is_failure (hT : Facts.catches .condTry = some .all)
    (hC : Facts.catches .condCollect = some .all)
    (inner : Conv) (c : CondExpr) (fmt : ExpFmt) (v x : Val) (e : Exc)
    (h1 : tryC E inner v = .ok x) (h2 : evalCond E Facts.stockCond c x = .error e) :
    tryC E (.cond inner c fmt) v = .interrupt ∧
    colC E (.cond inner c fmt) v =
      .ok (some (.condFailed (expected E (.cond inner c fmt) false) v c.name (some e.msg))) := by
  constructor
  · simp only [tryC, h1, Outcome.bind_ok, h2, hT, guardTry, Catch.catches, if_true]
  · simp only [colC, h1, h2, hC, guardCol, Catch.catches, if_true, causeOf]

theorem C13_raise_is_failure' (inner : Conv) (c : CondExpr) (fmt : ExpFmt) (v x : Val) (e : Exc)
    (h1 : tryC E inner v = .ok x) (h2 : evalCond E Facts.stockCond c x = .error e) :
    tryC E (.cond inner c fmt) v = .interrupt ∧
    colC E (.cond inner c fmt) v =
      .ok (some (.condFailed (expected E (.cond inner c fmt) false) v c.name (some e.msg))) :=
  C13_raise_is_failure C13_condTry_fact C13_condCollect_fact inner c fmt v x e h1 h2

/-- a predicate that returns `False`: `ConditionFailed` on the original value, no cause -/
theorem C13_false_is_failure (inner : Conv) (c : CondExpr) (fmt : ExpFmt) (v x : Val)
    (h1 : tryC E inner v = .ok x) (h2 : evalCond E Facts.stockCond c x = .ok false) :
    tryC E (.cond inner c fmt) v = .interrupt ∧
    colC E (.cond inner c fmt) v =
      .ok (some (.condFailed (expected E (.cond inner c fmt) false) v c.name none)) := by
  constructor
  · simp only [tryC, h1, Outcome.bind_ok, h2, guardTry_ok]
  · simp only [colC, h1, h2]

/-- the text of the `expected` field: the inner text decorated with the condition's name -/
theorem C13_expected (inner : Conv) (c : CondExpr) (fmt : ExpFmt) (pl : Bool) :
    expected E (.cond inner c fmt) pl = fmt.apply c.name (expected E inner pl) pl := by
  simp only [expected]

/-- **C13 (inner failure).** If `T` rejects, the tree is `T`'s tree (the condition is not consulted);
if `T` lets an exception out, so does `Annotated[T, c]`. -/
theorem C13_inner_failure (inner : Conv) (c : CondExpr) (fmt : ExpFmt) (v : Val)
    (h : tryC E inner v = .interrupt) :
    tryC E (.cond inner c fmt) v = .interrupt ∧ colC E (.cond inner c fmt) v = colC E inner v := by
  constructor
  · simp only [tryC, h, Outcome.bind_interrupt]
  · simp only [colC, h]

theorem C13_inner_leak (inner : Conv) (c : CondExpr) (fmt : ExpFmt) (v : Val) (e : Exc)
    (h : tryC E inner v = .leak e) :
    tryC E (.cond inner c fmt) v = .leak e ∧ colC E (.cond inner c fmt) v = .leak e := by
  constructor
  · simp only [tryC, h, Outcome.bind_leak]
  · simp only [colC, h]

/-! ## Construction: conditions are bundled -/

/-- **C13 (bundle).** `Annotated[T, c₁, …, cₙ]` with `n ≥ 2` conditions and nothing else builds ONE
condition converter around `T` whose predicate is `Condition.all(c₁, …, cₙ)`. -/
theorem C13_bundle (env : Env) (mkCls : ClassEntry → Handlers → Except BuildErr Conv) (H : Handlers)
    (t : Ty) (p₁ p₂ : CondExpr × ExpFmt) (ps : List (CondExpr × ExpFmt)) :
    mkTy env mkCls H (.annotated t (.cond p₁.1 p₁.2 :: .cond p₂.1 p₂.2 :: condAnns ps)) =
      match mkTy env mkCls H t with
      | .ok b => .ok (.cond b (.all (p₁.1 :: p₂.1 :: ps.map (·.1))) .satisfying)
      | .error e => .error e := by
  have := mkTy_annotated_conds env mkCls H t (p₁ :: p₂ :: ps)
  simp only [condAnns, List.map_cons] at this ⊢
  rw [this]
  cases mkTy env mkCls H t <;> rfl

/-- a single condition keeps its own `expected` decoration -/
theorem C13_bundle_one (env : Env) (mkCls : ClassEntry → Handlers → Except BuildErr Conv) (H : Handlers)
    (t : Ty) (c : CondExpr) (f : ExpFmt) :
    mkTy env mkCls H (.annotated t [.cond c f]) =
      match mkTy env mkCls H t with
      | .ok b => .ok (.cond b c f)
      | .error e => .error e := by
  have := mkTy_annotated_conds env mkCls H t [(c, f)]
  simp only [condAnns, List.map_cons, List.map_nil] at this
  rw [this]
  cases mkTy env mkCls H t <;> rfl

/-- no annotation at all: the bare type -/
theorem C13_bundle_none (env : Env) (mkCls : ClassEntry → Handlers → Except BuildErr Conv) (H : Handlers)
    (t : Ty) : mkTy env mkCls H (.annotated t []) = mkTy env mkCls H t := by
  have := mkTy_annotated_conds env mkCls H t []
  simp only [condAnns, List.map_nil] at this
  rw [this]
  cases mkTy env mkCls H t <;> rfl

/-- an annotation pane does not know, after any number of conditions: refused when the converter is
built (`mkTy` has no data argument: nothing is looked at) -/
theorem C13_foreign_refused (env : Env) (mkCls : ClassEntry → Handlers → Except BuildErr Conv) (H : Handlers)
    (t : Ty) (ps : List (CondExpr × ExpFmt)) (rest : List Ann) :
    mkTy env mkCls H (.annotated t (condAnns ps ++ .foreign :: rest)) = .error .unsupportedAnnotation :=
  mkTy_annotated_foreign env mkCls H t ps rest

/-- … and wherever it stands among the annotations, no converter is built -/
theorem C13_foreign_never_builds (env : Env) (mkCls : ClassEntry → Handlers → Except BuildErr Conv)
    (H : Handlers) (t : Ty) (anns : List Ann) (h : Ann.foreign ∈ anns) :
    ∃ e, mkTy env mkCls H (.annotated t anns) = .error e :=
  mkTy_annotated_foreign_mem env mkCls H t anns h

/-! ## Combinators -/

/-- **C13 (and / or / not as Boolean connectives).** When no member raises on `x`, `Condition.all` is
the conjunction, `Condition.any` the disjunction and `~c` the negation of "evaluates to true". -/
theorem C13_all_any_not (cs : List CondExpr) (x : Val)
    (hno : ∀ c ∈ cs, ∃ b, evalCond E Facts.stockCond c x = .ok b) :
    evalCond E Facts.stockCond (.all cs) x = .ok (cs.all (holds E · x)) ∧
    evalCond E Facts.stockCond (.any cs) x = .ok (cs.any (holds E · x)) := by
  rw [evalCond_all, evalCond_any]
  induction cs with
  | nil => exact ⟨evalAll_nil .., evalAny_nil ..⟩
  | cons c cs ih =>
    obtain ⟨b, hb⟩ := hno c List.mem_cons_self
    have ih := ih fun c' hc' => hno c' (List.mem_cons_of_mem _ hc')
    rw [evalAll_cons, evalAny_cons, List.all_cons, List.any_cons]
    cases b <;> simp [holds, hb, ih]

theorem C13_not (c : CondExpr) (x : Val) (hno : ∃ b, evalCond E Facts.stockCond c x = .ok b) :
    evalCond E Facts.stockCond (.not c) x = .ok (!holds E c x) := by
  obtain ⟨b, hb⟩ := hno
  rw [evalCond_not, hb]
  cases b <;> simp [holds, hb, Except.map]

/-- in terms of `holds` alone (a raise anywhere makes `holds` false, also for the compound) -/
theorem C13_holds_all (cs : List CondExpr) (x : Val) :
    holds E (.all cs) x = cs.all (holds E · x) := by
  induction cs with
  | nil => simp [holds, evalCond_all, evalAll_nil]
  | cons c cs ih =>
    rw [List.all_cons, ← ih]
    simp only [holds, evalCond_all, evalAll_cons]
    cases hev : evalCond E Facts.stockCond c x with
    | ok b => cases b <;> simp
    | error e => simp

/-! ## Python's evaluation order -/

/-- **C13 (short circuit).** `all(c.f(v) for c in cs)` / `any(…)` / `not c.f(v)`, exactly:
`all` stops at the first false member — a later member that would raise is never run — and a member
that raises before any false one propagates; dually for `any` with true; `~c` propagates a raise. -/
theorem C13_short_circuit (c : CondExpr) (cs : List CondExpr) (x : Val) :
    -- all
    (evalCond E Facts.stockCond c x = .ok false → evalCond E Facts.stockCond (.all (c :: cs)) x = .ok false) ∧
    (evalCond E Facts.stockCond c x = .ok true →
      evalCond E Facts.stockCond (.all (c :: cs)) x = evalCond E Facts.stockCond (.all cs) x) ∧
    (∀ e, evalCond E Facts.stockCond c x = .error e → evalCond E Facts.stockCond (.all (c :: cs)) x = .error e) ∧
    -- any
    (evalCond E Facts.stockCond c x = .ok true → evalCond E Facts.stockCond (.any (c :: cs)) x = .ok true) ∧
    (evalCond E Facts.stockCond c x = .ok false →
      evalCond E Facts.stockCond (.any (c :: cs)) x = evalCond E Facts.stockCond (.any cs) x) ∧
    (∀ e, evalCond E Facts.stockCond c x = .error e → evalCond E Facts.stockCond (.any (c :: cs)) x = .error e) ∧
    -- not
    (∀ e, evalCond E Facts.stockCond c x = .error e → evalCond E Facts.stockCond (.not c) x = .error e) ∧
    (∀ b, evalCond E Facts.stockCond c x = .ok b → evalCond E Facts.stockCond (.not c) x = .ok (!b)) ∧
    -- empty
    evalCond E Facts.stockCond (.all []) x = .ok true ∧ evalCond E Facts.stockCond (.any []) x = .ok false := by
  refine ⟨?_, ?_, ?_, ?_, ?_, ?_, ?_, ?_, ?_, ?_⟩ <;> intros <;>
    simp_all [evalCond_all, evalCond_any, evalCond_not, evalAll_cons, evalAny_cons, evalAll_nil, evalAny_nil,
      Except.map]

/-- the first false member decides `all`, whatever follows it (even members that raise) -/
theorem C13_all_first_false (pre : List CondExpr) (c : CondExpr) (post : List CondExpr) (x : Val)
    (hpre : ∀ p ∈ pre, evalCond E Facts.stockCond p x = .ok true)
    (hc : evalCond E Facts.stockCond c x = .ok false) :
    evalCond E Facts.stockCond (.all (pre ++ c :: post)) x = .ok false := by
  rw [evalCond_all]
  induction pre with
  | nil => simp only [List.nil_append, evalAll_cons, hc]
  | cons p pre ih =>
    simp only [List.cons_append, evalAll_cons, hpre p List.mem_cons_self]
    exact ih fun q hq => hpre q (List.mem_cons_of_mem _ hq)

/-- a member that raises before any false one: the raise is the result of `all` -/
theorem C13_all_first_raise (pre : List CondExpr) (c : CondExpr) (post : List CondExpr) (x : Val) (e : Exc)
    (hpre : ∀ p ∈ pre, evalCond E Facts.stockCond p x = .ok true)
    (hc : evalCond E Facts.stockCond c x = .error e) :
    evalCond E Facts.stockCond (.all (pre ++ c :: post)) x = .error e := by
  rw [evalCond_all]
  induction pre with
  | nil => simp only [List.nil_append, evalAll_cons, hc]
  | cons p pre ih =>
    simp only [List.cons_append, evalAll_cons, hpre p List.mem_cons_self]
    exact ih fun q hq => hpre q (List.mem_cons_of_mem _ hq)

/-- the first true member decides `any` -/
theorem C13_any_first_true (pre : List CondExpr) (c : CondExpr) (post : List CondExpr) (x : Val)
    (hpre : ∀ p ∈ pre, evalCond E Facts.stockCond p x = .ok false)
    (hc : evalCond E Facts.stockCond c x = .ok true) :
    evalCond E Facts.stockCond (.any (pre ++ c :: post)) x = .ok true := by
  rw [evalCond_any]
  induction pre with
  | nil => simp only [List.nil_append, evalAny_cons, hc]
  | cons p pre ih =>
    simp only [List.cons_append, evalAny_cons, hpre p List.mem_cons_self]
    exact ih fun q hq => hpre q (List.mem_cons_of_mem _ hq)

theorem C13_any_first_raise (pre : List CondExpr) (c : CondExpr) (post : List CondExpr) (x : Val) (e : Exc)
    (hpre : ∀ p ∈ pre, evalCond E Facts.stockCond p x = .ok false)
    (hc : evalCond E Facts.stockCond c x = .error e) :
    evalCond E Facts.stockCond (.any (pre ++ c :: post)) x = .error e := by
  rw [evalCond_any]
  induction pre with
  | nil => simp only [List.nil_append, evalAny_cons, hc]
  | cons p pre ih =>
    simp only [List.cons_append, evalAny_cons, hpre p List.mem_cons_self]
    exact ih fun q hq => hpre q (List.mem_cons_of_mem _ hq)

/-! ## The stock conditions -/

theorem C13_stock_table :
    Facts.stockNames = ["Positive", "Negative", "NonPositive", "NonNegative", "Finite", "Empty", "NonEmpty"] := by
  decide

/-- the lambdas of the stock conditions, as read from the source -/
theorem C13_stock_sem :
    Facts.stockCond "Positive" = some (.valCmp .gt (.int 0)) ∧
    Facts.stockCond "Negative" = some (.valCmp .lt (.int 0)) ∧
    Facts.stockCond "NonPositive" = some (.valCmp .le (.int 0)) ∧
    Facts.stockCond "NonNegative" = some (.valCmp .ge (.int 0)) ∧
    Facts.stockCond "Finite" = some .finite ∧
    Facts.stockCond "Empty" = some (.lenCmp .eq 0) ∧
    Facts.stockCond "NonEmpty" = some (.lenCmp .ne 0) :=
  ⟨rfl, rfl, rfl, rfl, rfl, rfl, rfl⟩

/-- `val_range` / `len_range` compare with `>=` on `min` and `<=` on `max`: both ends inclusive -/
theorem C13_range_inclusive :
    Facts.valRangeOps = some [("ge", "min"), ("le", "max")] ∧
    Facts.lenRangeOps = some [("ge", "min"), ("le", "max")] := by
  decide

/-- the bodies of `Condition.all`, `Condition.any`, `Condition.__invert__` -/
theorem C13_combinator_bodies :
    Facts.condAll = some "all((cond.f(val) for cond in conditions))" ∧
    Facts.condAny = some "any((cond.f(val) for cond in conditions))" ∧
    Facts.condNot = some "not self.f(val)" := by
  decide

/-- **C13 (sign conditions on ints).** -/
theorem C13_stock_int (n : String) (i : Int) :
    evalCond E Facts.stockCond (.leaf (.stock "Positive") n) (.int i) = .ok (decide (0 < i)) ∧
    evalCond E Facts.stockCond (.leaf (.stock "Negative") n) (.int i) = .ok (decide (i < 0)) ∧
    evalCond E Facts.stockCond (.leaf (.stock "NonNegative") n) (.int i) = .ok (decide (0 ≤ i)) ∧
    evalCond E Facts.stockCond (.leaf (.stock "NonPositive") n) (.int i) = .ok (decide (i ≤ 0)) ∧
    evalCond E Facts.stockCond (.leaf (.stock "Finite") n) (.int i) = .ok true := by
  simp only [evalCond_leaf]
  rw [evalSem_stock_valCmp E C13_stock_sem.1, evalSem_stock_valCmp E C13_stock_sem.2.1,
    evalSem_stock_valCmp E C13_stock_sem.2.2.2.1, evalSem_stock_valCmp E C13_stock_sem.2.2.1,
    evalSem_stock_finite E C13_stock_sem.2.2.2.2.1]
  simp only [valCmp_real E _ (v := .int i) (b := .int 0) rfl rfl, Val.realPart, Flt.cmp_fin0,
    holds_gt_int, holds_lt_int, holds_ge_int, holds_le_int, isFiniteV, and_self]

/-- **C13 (sign conditions on bools)**: `True` is `1`, `False` is `0`. -/
theorem C13_stock_bool (n : String) (b : Bool) :
    evalCond E Facts.stockCond (.leaf (.stock "Positive") n) (.bool b) = .ok b ∧
    evalCond E Facts.stockCond (.leaf (.stock "Negative") n) (.bool b) = .ok false ∧
    evalCond E Facts.stockCond (.leaf (.stock "NonNegative") n) (.bool b) = .ok true ∧
    evalCond E Facts.stockCond (.leaf (.stock "NonPositive") n) (.bool b) = .ok (!b) ∧
    evalCond E Facts.stockCond (.leaf (.stock "Finite") n) (.bool b) = .ok true := by
  simp only [evalCond_leaf]
  rw [evalSem_stock_valCmp E C13_stock_sem.1, evalSem_stock_valCmp E C13_stock_sem.2.1,
    evalSem_stock_valCmp E C13_stock_sem.2.2.2.1, evalSem_stock_valCmp E C13_stock_sem.2.2.1,
    evalSem_stock_finite E C13_stock_sem.2.2.2.2.1]
  simp only [valCmp_real E _ (v := .bool b) (b := .int 0) rfl rfl, Val.realPart, Flt.cmp_fin0,
    holds_gt_int, holds_lt_int, holds_ge_int, holds_le_int, isFiniteV]
  cases b <;> simp

/-- **C13 (sign conditions on floats)**, through the exact three-way comparison `Flt.cmp` with `0` -/
theorem C13_stock_float (n : String) (f : Flt) :
    evalCond E Facts.stockCond (.leaf (.stock "Positive") n) (.float f) = .ok (CmpOp.gt.holds (Flt.cmp f (.ofInt 0))) ∧
    evalCond E Facts.stockCond (.leaf (.stock "Negative") n) (.float f) = .ok (CmpOp.lt.holds (Flt.cmp f (.ofInt 0))) ∧
    evalCond E Facts.stockCond (.leaf (.stock "NonNegative") n) (.float f) = .ok (CmpOp.ge.holds (Flt.cmp f (.ofInt 0))) ∧
    evalCond E Facts.stockCond (.leaf (.stock "NonPositive") n) (.float f) = .ok (CmpOp.le.holds (Flt.cmp f (.ofInt 0))) ∧
    evalCond E Facts.stockCond (.leaf (.stock "Finite") n) (.float f) = .ok f.isFinite := by
  simp only [evalCond_leaf]
  rw [evalSem_stock_valCmp E C13_stock_sem.1, evalSem_stock_valCmp E C13_stock_sem.2.1,
    evalSem_stock_valCmp E C13_stock_sem.2.2.2.1, evalSem_stock_valCmp E C13_stock_sem.2.2.1,
    evalSem_stock_finite E C13_stock_sem.2.2.2.2.1]
  simp only [valCmp_real E _ (v := .float f) (b := .int 0) rfl rfl, Val.realPart, Flt.ofInt, isFiniteV, and_self]

/-- … which on a finite float `m / 2^k` is the sign of `m`, on `±inf` the sign of the infinity, and on
`nan` false for all four -/
theorem C13_stock_float_values (m : Int) (k : Nat) :
    (CmpOp.gt.holds (Flt.cmp (.fin m k) (.ofInt 0)) = decide (0 < m) ∧
     CmpOp.lt.holds (Flt.cmp (.fin m k) (.ofInt 0)) = decide (m < 0) ∧
     CmpOp.ge.holds (Flt.cmp (.fin m k) (.ofInt 0)) = decide (0 ≤ m) ∧
     CmpOp.le.holds (Flt.cmp (.fin m k) (.ofInt 0)) = decide (m ≤ 0)) ∧
    (CmpOp.gt.holds (Flt.cmp .inf (.ofInt 0)) = true ∧ CmpOp.lt.holds (Flt.cmp .inf (.ofInt 0)) = false ∧
     CmpOp.ge.holds (Flt.cmp .inf (.ofInt 0)) = true ∧ CmpOp.le.holds (Flt.cmp .inf (.ofInt 0)) = false) ∧
    (CmpOp.gt.holds (Flt.cmp .ninf (.ofInt 0)) = false ∧ CmpOp.lt.holds (Flt.cmp .ninf (.ofInt 0)) = true ∧
     CmpOp.ge.holds (Flt.cmp .ninf (.ofInt 0)) = false ∧ CmpOp.le.holds (Flt.cmp .ninf (.ofInt 0)) = true) ∧
    (CmpOp.gt.holds (Flt.cmp .nan (.ofInt 0)) = false ∧ CmpOp.lt.holds (Flt.cmp .nan (.ofInt 0)) = false ∧
     CmpOp.ge.holds (Flt.cmp .nan (.ofInt 0)) = false ∧ CmpOp.le.holds (Flt.cmp .nan (.ofInt 0)) = false) := by
  refine ⟨?_, by decide, by decide, by decide⟩
  simp only [Flt.ofInt, Flt.cmp_fin_int, Int.zero_mul, holds_gt_int, holds_lt_int, holds_ge_int, holds_le_int,
    and_self]

/-- **C13 (`Empty` / `NonEmpty`).** On anything with a length: length `= 0` / `≠ 0`. -/
theorem C13_stock_len (n : String) (v : Val) (k : Nat) (hk : pyLen v = .ok k) :
    evalCond E Facts.stockCond (.leaf (.stock "Empty") n) v = .ok (decide (k = 0)) ∧
    evalCond E Facts.stockCond (.leaf (.stock "NonEmpty") n) v = .ok (decide (k ≠ 0)) := by
  simp only [evalCond_leaf]
  rw [evalSem_stock_lenCmp E C13_stock_sem.2.2.2.2.2.1, evalSem_stock_lenCmp E C13_stock_sem.2.2.2.2.2.2, hk]
  simp only [Except.map, holds_eq_nat, holds_ne_nat, and_self]

/-- the lengths `len()` reports -/
theorem C13_pyLen (xs : List Val) (s : String) (kvs : List (Val × Val)) :
    pyLen (.list xs) = .ok xs.length ∧ pyLen (.tuple xs) = .ok xs.length ∧
    pyLen (.str s) = .ok s.length ∧ pyLen (.dict kvs) = .ok kvs.length ∧
    pyLen (.set xs) = .ok xs.length ∧ pyLen (.frozenset xs) = .ok xs.length ∧
    pyLen (.deque xs) = .ok xs.length ∧ pyLen (.bytes s) = .ok s.length :=
  ⟨rfl, rfl, rfl, rfl, rfl, rfl, rfl, rfl⟩

theorem C13_stock_empty_list (n : String) (xs : List Val) :
    evalCond E Facts.stockCond (.leaf (.stock "Empty") n) (.list xs) = .ok (decide (xs.length = 0)) ∧
    evalCond E Facts.stockCond (.leaf (.stock "NonEmpty") n) (.list xs) = .ok (decide (xs.length ≠ 0)) :=
  C13_stock_len n _ _ rfl

/-- **C13 (no order / no length ⇒ `TypeError`, never "true").**  A sign condition or `Finite` on a
value that is not a real number (and not a `Decimal`/`Fraction`, whose arithmetic is the standard
library's), and `Empty`/`NonEmpty` on a value without `len()`, raise `TypeError`. -/
theorem C13_stock_type_error (n : String) (v : Val) :
    (v.isReal = false → v.isDecFrac = false →
      ∀ s ∈ ["Positive", "Negative", "NonPositive", "NonNegative", "Finite"],
        ∃ msg, evalCond E Facts.stockCond (.leaf (.stock s) n) v = .error { cls := .typeError, msg := msg }) ∧
    (v.hasLen = false →
      ∀ s ∈ ["Empty", "NonEmpty"],
        ∃ msg, evalCond E Facts.stockCond (.leaf (.stock s) n) v = .error { cls := .typeError, msg := msg }) := by
  constructor
  · intro h1 h2 s hs
    simp only [List.mem_cons, List.not_mem_nil, or_false] at hs
    simp only [evalCond_leaf]
    rcases hs with rfl | rfl | rfl | rfl | rfl
    · exact ⟨_, by rw [evalSem_stock_valCmp E C13_stock_sem.1, valCmp_no_order E _ _ h1 h2]⟩
    · exact ⟨_, by rw [evalSem_stock_valCmp E C13_stock_sem.2.1, valCmp_no_order E _ _ h1 h2]⟩
    · exact ⟨_, by rw [evalSem_stock_valCmp E C13_stock_sem.2.2.1, valCmp_no_order E _ _ h1 h2]⟩
    · exact ⟨_, by rw [evalSem_stock_valCmp E C13_stock_sem.2.2.2.1, valCmp_no_order E _ _ h1 h2]⟩
    · exact ⟨_, by rw [evalSem_stock_finite E C13_stock_sem.2.2.2.2.1, isFiniteV_not_real E h1 h2]⟩
  · intro h s hs
    simp only [List.mem_cons, List.not_mem_nil, or_false] at hs
    simp only [evalCond_leaf]
    rcases hs with rfl | rfl
    · exact ⟨_, by rw [evalSem_stock_lenCmp E C13_stock_sem.2.2.2.2.2.1, pyLen_no_len h]; rfl⟩
    · exact ⟨_, by rw [evalSem_stock_lenCmp E C13_stock_sem.2.2.2.2.2.2, pyLen_no_len h]; rfl⟩

/-- the exact CPython message for `Positive` on a string -/
theorem C13_stock_str_message (n s : String) :
    evalCond E Facts.stockCond (.leaf (.stock "Positive") n) (.str s) =
      .error { cls := .typeError, msg := "TypeError: '>' not supported between instances of 'str' and 'int'" } ∧
    evalCond E Facts.stockCond (.leaf (.stock "Empty") n) (.int 3) =
      .error { cls := .typeError, msg := "TypeError: object of type 'int' has no len()" } := by
  simp only [evalCond_leaf]
  rw [evalSem_stock_valCmp E C13_stock_sem.1, evalSem_stock_lenCmp E C13_stock_sem.2.2.2.2.2.1,
    valCmp_no_order E _ _ rfl rfl]
  exact ⟨rfl, rfl⟩

/-! ## Ranges -/

/-- **C13 (`val_range` on real numbers).** `val_range(min=lo, max=hi)` is `lo <= v and v <= hi` (the
model encodes it as `all [v >= lo, v <= hi]`; an omitted bound drops its member). -/
theorem C13_val_range_real (stock : String → Option CondSem) (n₁ n₂ : String) (v lo hi : Val)
    (hv : v.isReal = true) (hlo : lo.isReal = true) (hhi : hi.isReal = true) :
    evalCond E stock (.all [.leaf (.valCmp .ge lo) n₁, .leaf (.valCmp .le hi) n₂]) v =
      .ok (CmpOp.ge.holds (Flt.cmp v.realPart lo.realPart) && CmpOp.le.holds (Flt.cmp v.realPart hi.realPart)) := by
  simp only [evalCond_all, evalAll_cons, evalAll_nil, evalCond_leaf, evalSem, valCmp_real E _ hv hlo,
    valCmp_real E _ hv hhi]
  cases CmpOp.ge.holds (Flt.cmp v.realPart lo.realPart) <;>
    cases CmpOp.le.holds (Flt.cmp v.realPart hi.realPart) <;> rfl

/-- **C13 (`val_range`, integers): both ends inclusive.** -/
theorem C13_val_range (stock : String → Option CondSem) (n₁ n₂ : String) (lo hi i : Int) :
    evalCond E stock (.all [.leaf (.valCmp .ge (.int lo)) n₁, .leaf (.valCmp .le (.int hi)) n₂]) (.int i) =
      .ok (decide (lo ≤ i ∧ i ≤ hi)) ∧
    evalCond E stock (.all [.leaf (.valCmp .ge (.int lo)) n₁]) (.int i) = .ok (decide (lo ≤ i)) ∧
    evalCond E stock (.all [.leaf (.valCmp .le (.int hi)) n₂]) (.int i) = .ok (decide (i ≤ hi)) ∧
    evalCond E stock (.all []) (.int i) = .ok true := by
  simp only [evalCond_all, evalAll_cons, evalAll_nil, evalCond_leaf, evalSem,
    valCmp_real E _ (v := .int i) (b := .int lo) rfl rfl, valCmp_real E _ (v := .int i) (b := .int hi) rfl rfl,
    Val.realPart, Flt.cmp_fin0, holds_ge_int, holds_le_int]
  refine ⟨?_, ?_, ?_, trivial⟩
  · by_cases h1 : lo ≤ i <;> by_cases h2 : i ≤ hi <;> simp [h1, h2]
  · by_cases h1 : lo ≤ i <;> simp [h1]
  · by_cases h2 : i ≤ hi <;> simp [h2]

/-- **C13 (`len_range`): both ends inclusive**, on anything with a length -/
theorem C13_len_range (stock : String → Option CondSem) (n₁ n₂ : String) (lo hi : Nat) (v : Val) (k : Nat)
    (hk : pyLen v = .ok k) :
    evalCond E stock (.all [.leaf (.lenCmp .ge lo) n₁, .leaf (.lenCmp .le hi) n₂]) v =
      .ok (decide (lo ≤ k ∧ k ≤ hi)) ∧
    evalCond E stock (.all [.leaf (.lenCmp .ge lo) n₁]) v = .ok (decide (lo ≤ k)) ∧
    evalCond E stock (.all [.leaf (.lenCmp .le hi) n₂]) v = .ok (decide (k ≤ hi)) ∧
    evalCond E stock (.all []) v = .ok true := by
  simp only [evalCond_all, evalAll_cons, evalAll_nil, evalCond_leaf, evalSem, hk, Except.map,
    holds_ge_nat, holds_le_nat]
  refine ⟨?_, ?_, ?_, trivial⟩
  · by_cases h1 : lo ≤ k <;> by_cases h2 : k ≤ hi <;> simp [h1, h2]
  · by_cases h1 : lo ≤ k <;> simp [h1]
  · by_cases h2 : k ≤ hi <;> simp [h2]

theorem C13_len_range_list (stock : String → Option CondSem) (n₁ n₂ : String) (lo hi : Nat) (xs : List Val) :
    evalCond E stock (.all [.leaf (.lenCmp .ge lo) n₁, .leaf (.lenCmp .le hi) n₂]) (.list xs) =
      .ok (decide (lo ≤ xs.length ∧ xs.length ≤ hi)) :=
  (C13_len_range stock n₁ n₂ lo hi (.list xs) xs.length rfl).1

/-! ## NaN -/

/-- **C13 (NaN).** Every order comparison of a NaN float with a real bound is false; `!=` is true. -/
theorem C13_nan (stock : String → Option CondSem) (op : CmpOp) (b : Val) (n : String) (hb : b.isReal = true) :
    evalCond E stock (.leaf (.valCmp op b) n) (.float .nan) = .ok (decide (op = .ne)) := by
  simp only [evalCond_leaf, evalSem, valCmp_real E op (v := .float .nan) rfl hb, Val.realPart,
    Flt.cmp_nan_left, holds_none]

/-- in particular a NaN is never inside a `val_range`, and never `Positive`, …, `NonPositive` -/
theorem C13_nan_range (stock : String → Option CondSem) (n₁ n₂ : String) (lo hi : Int) :
    evalCond E stock (.all [.leaf (.valCmp .ge (.int lo)) n₁, .leaf (.valCmp .le (.int hi)) n₂]) (.float .nan) =
      .ok false := by
  simp only [evalCond_all, evalAll_cons, C13_nan stock .ge (.int lo) n₁ rfl]
  rfl

/-! ## Serialisation -/

/-- **C13 (serialisation ignores conditions).** -/
theorem C13_serialise_ignores (dyn : Val → Except Exc Val) (inner : Conv) (c : CondExpr) (fmt : ExpFmt)
    (x : Val) : intoC E dyn (.cond inner c fmt) x = intoC E dyn inner x := by
  simp only [intoC]

/-! ## Non-vacuity -/

/-- user predicates: `"even"` is total on ints (and `False` elsewhere), `"boom"` always raises -/
def exE13 : Ext :=
  { extRaising with
    cond := fun id _ v =>
      if id == "even" then
        match v with
        | .int i => .ok (i % 2 == 0)
        | _ => .ok false
      else .error { cls := .zeroDivision, msg := "ZeroDivisionError: division by zero" } }

def cPos : CondExpr := .leaf (.stock "Positive") "positive"
def cNeg : CondExpr := .leaf (.stock "Negative") "negative"
def cEven : CondExpr := .leaf (.user "even" 0) "even"
def cBoom : CondExpr := .leaf (.user "boom" 0) "boom"

/-- `Annotated[int, Positive, Condition(even)]` as `mkTy` builds it -/
def exPosEven : Conv := .cond exInt (.all [cPos, cEven]) .satisfying
/-- `Annotated[int, Condition(boom)]` -/
def exBoom : Conv := .cond exInt cBoom .satisfying

-- acceptance: the value is returned unchanged
example : tryC exE13 exPosEven (.int 4) = .ok (.int 4) :=
  (C13_accept_iff exInt _ _ (.int 4) (.int 4)).2 ⟨by rfl, by rfl⟩
example : colC exE13 exPosEven (.int 4) = .ok none := C13_accept_no_tree exInt _ _ _ (.int 4) (by rfl) (by rfl)
-- the predicate sees the converted value: `True` converts to `1`, which is odd
example : tryC exE13 (.cond (.scalar "int" [.int] .viaCtor "an int" "ints") cEven .satisfying) (.bool true) =
    .interrupt := by rfl
-- a false predicate
example : tryC exE13 exPosEven (.int 3) = .interrupt ∧
    colC exE13 exPosEven (.int 3) =
      .ok (some (.condFailed "an int satisfying positive and even" (.int 3) "positive and even" none)) :=
  C13_false_is_failure exInt _ _ (.int 3) (.int 3) (by rfl) (by rfl)
-- a raising predicate: a failed condition carrying the cause
example : tryC exE13 exBoom (.int 3) = .interrupt ∧
    colC exE13 exBoom (.int 3) =
      .ok (some (.condFailed "an int satisfying boom" (.int 3) "boom" (some "ZeroDivisionError: division by zero"))) :=
  C13_raise_is_failure' (E := exE13) exInt cBoom .satisfying (.int 3) (.int 3)
    { cls := .zeroDivision, msg := "ZeroDivisionError: division by zero" } (by rfl) (by rfl)
example : tryC exE13 exBoom (.int 3) = (.ok (.int 3) : Outcome Val).bind fun _ => .interrupt :=
  C13_try_eq' exInt cBoom .satisfying (.int 3)
-- the inner type rejects: its tree
example : colC exE13 exPosEven (.str "x") = .ok (some (.wrongType "an int" (.str "x") none none)) :=
  ((C13_inner_failure exInt _ .satisfying (.str "x") (by rfl)).2).trans (by rfl)
example : expected exE13 exPosEven false = "an int satisfying positive and even" := by rfl

-- construction
def noCls : ClassEntry → Handlers → Except BuildErr Conv := fun _ _ => .error (.other "no classes")

-- an inner (user-written) converter that lets an exception out: so does the annotated one
example : tryC { exE13 with customTry := fun _ _ => .leak { cls := .other, msg := "boom" } }
    (.cond (.custom "c") cPos .satisfying) (.int 1) = .leak { cls := .other, msg := "boom" } :=
  (C13_inner_leak (.custom "c") cPos .satisfying (.int 1) _ (by rfl)).1
example : mkTy {} noCls {} (.annotated (.scalar "int") []) = mkTy {} noCls {} (.scalar "int") :=
  C13_bundle_none {} noCls {} _
example : mkTy {} noCls {} (.annotated (.scalar "int") [.cond cPos .satisfying, .cond cEven .satisfying]) =
    .ok (.cond (.scalar "int" [.int] .viaCtor "an int" "ints") (.all [cPos, cEven]) .satisfying) :=
  C13_bundle {} noCls {} (.scalar "int") (cPos, .satisfying) (cEven, .satisfying) []
example : mkTy {} noCls {} (.annotated (.scalar "int") [.cond cPos (.adjective "positive" "a")]) =
    .ok (.cond (.scalar "int" [.int] .viaCtor "an int" "ints") cPos (.adjective "positive" "a")) :=
  C13_bundle_one {} noCls {} (.scalar "int") cPos _
example : mkTy {} noCls {} (.annotated (.scalar "int") [.cond cPos .satisfying, .foreign]) =
    .error .unsupportedAnnotation :=
  C13_foreign_refused {} noCls {} (.scalar "int") [(cPos, .satisfying)] []
example : ∃ e, mkTy {} noCls {} (.annotated (.scalar "int") [.foreign, .cond cPos .satisfying]) = .error e :=
  C13_foreign_never_builds {} noCls {} _ _ (by simp)

-- combinators
example : evalCond exE13 Facts.stockCond (.all [cPos, cEven]) (.int 4) = .ok true ∧
    evalCond exE13 Facts.stockCond (.any [cNeg, cEven]) (.int 4) = .ok true := by
  have := C13_all_any_not (E := exE13) [cPos, cEven] (.int 4)
    (by intro c hc; simp at hc; rcases hc with rfl | rfl <;> exact ⟨_, by rfl⟩)
  exact ⟨by rfl, by rfl⟩
example : evalCond exE13 Facts.stockCond (.not cEven) (.int 3) = .ok (!holds exE13 cEven (.int 3)) :=
  C13_not cEven (.int 3) ⟨false, by rfl⟩
example : holds exE13 (.all [cPos, cBoom]) (.int 4) = false := by rfl
-- short circuit: `negative` is false on 3, so `boom` never runs; the other way round it raises
example : evalCond exE13 Facts.stockCond (.all [cPos, cNeg, cBoom]) (.int 3) = .ok false :=
  C13_all_first_false [cPos] cNeg [cBoom] (.int 3)
    (by intro p hp; simp at hp; subst hp; rfl) (by rfl)
example : evalCond exE13 Facts.stockCond (.all [cPos, cBoom, cNeg]) (.int 3) =
    .error { cls := .zeroDivision, msg := "ZeroDivisionError: division by zero" } :=
  C13_all_first_raise [cPos] cBoom [cNeg] (.int 3) _
    (by intro p hp; simp at hp; subst hp; rfl) (by rfl)
example : evalCond exE13 Facts.stockCond (.any [cNeg, cPos, cBoom]) (.int 3) = .ok true :=
  C13_any_first_true [cNeg] cPos [cBoom] (.int 3)
    (by intro p hp; simp at hp; subst hp; rfl) (by rfl)
example : evalCond exE13 Facts.stockCond (.not cBoom) (.int 3) =
    .error { cls := .zeroDivision, msg := "ZeroDivisionError: division by zero" } :=
  (C13_short_circuit cBoom [] (.int 3)).2.2.2.2.2.2.1
    { cls := .zeroDivision, msg := "ZeroDivisionError: division by zero" } (by rfl)

-- stock conditions, boundaries
example : evalCond exE13 Facts.stockCond cPos (.int 0) = .ok false := (C13_stock_int "positive" 0).1
example : evalCond exE13 Facts.stockCond (.leaf (.stock "NonNegative") "n") (.int 0) = .ok true :=
  (C13_stock_int "n" 0).2.2.1
example : evalCond exE13 Facts.stockCond (.leaf (.stock "Finite") "finite") (.float .inf) = .ok false :=
  (C13_stock_float "finite" .inf).2.2.2.2
example : evalCond exE13 Facts.stockCond cPos (.float (.fin 1 1)) = .ok true := by
  rw [cPos, (C13_stock_float "positive" (.fin 1 1)).1, (C13_stock_float_values 1 1).1.1]; rfl
example : evalCond exE13 Facts.stockCond (.leaf (.stock "Empty") "empty") (.list []) = .ok true :=
  (C13_stock_empty_list "empty" []).1
example : evalCond exE13 Facts.stockCond (.leaf (.stock "NonEmpty") "nonempty") (.str "ab") = .ok true :=
  (C13_stock_len "nonempty" (.str "ab") 2 (by rfl)).2
example : ∃ msg, evalCond exE13 Facts.stockCond cPos (.str "1") = .error { cls := .typeError, msg := msg } :=
  (C13_stock_type_error "positive" (.str "1")).1 rfl rfl "Positive" (by simp)
example : ∃ msg, evalCond exE13 Facts.stockCond (.leaf (.stock "Empty") "empty") (.int 0) =
    .error { cls := .typeError, msg := msg } :=
  (C13_stock_type_error "empty" (.int 0)).2 rfl "Empty" (by simp)
-- … and such a `TypeError` is a failed condition like any other raise
example : colC exE13 (.cond .any cPos .satisfying) (.str "1") =
    .ok (some (.condFailed "any value satisfying positive" (.str "1") "positive"
      (some "TypeError: '>' not supported between instances of 'str' and 'int'"))) :=
  ((C13_raise_is_failure' (E := exE13) .any cPos .satisfying (.str "1") (.str "1") _ (by rfl)
    (C13_stock_str_message "positive" "1").1).2).trans (by rfl)

-- ranges: 1 ≤ i ≤ 3 holds at both ends and fails just outside
example : evalCond exE13 Facts.stockCond
    (.all [.leaf (.valCmp .ge (.int 1)) "a", .leaf (.valCmp .le (.int 3)) "b"]) (.int 1) = .ok true :=
  (C13_val_range Facts.stockCond "a" "b" 1 3 1).1
example : evalCond exE13 Facts.stockCond
    (.all [.leaf (.valCmp .ge (.int 1)) "a", .leaf (.valCmp .le (.int 3)) "b"]) (.int 3) = .ok true :=
  (C13_val_range Facts.stockCond "a" "b" 1 3 3).1
example : evalCond exE13 Facts.stockCond
    (.all [.leaf (.valCmp .ge (.int 1)) "a", .leaf (.valCmp .le (.int 3)) "b"]) (.int 4) = .ok false :=
  (C13_val_range Facts.stockCond "a" "b" 1 3 4).1
example : evalCond exE13 Facts.stockCond
    (.all [.leaf (.lenCmp .ge 1) "a", .leaf (.lenCmp .le 2) "b"]) (.list [.int 1, .int 2]) = .ok true :=
  C13_len_range_list Facts.stockCond "a" "b" 1 2 _
example : evalCond exE13 Facts.stockCond
    (.all [.leaf (.valCmp .ge (.float (.fin 1 1))) "a", .leaf (.valCmp .le (.int 3)) "b"]) (.float (.fin 1 1)) =
    .ok true :=
  (C13_val_range_real Facts.stockCond "a" "b" _ _ _ rfl rfl rfl).trans (by rfl)
example : evalCond exE13 Facts.stockCond (.leaf (.valCmp .ne (.int 0)) "nz") (.float .nan) = .ok true :=
  C13_nan Facts.stockCond .ne (.int 0) "nz" rfl
example : evalCond exE13 Facts.stockCond (.leaf (.valCmp .le (.float .inf)) "le") (.float .nan) = .ok false :=
  C13_nan Facts.stockCond .le (.float .inf) "le" rfl

-- serialisation
example : intoC exE13 (fun v => .ok v) exPosEven (.int 4) = .ok (.int 4) :=
  (C13_serialise_ignores _ exInt _ _ _).trans (by rfl)

/-! ## Axioms -/

#print axioms C13_condTry_fact
#print axioms C13_condCollect_fact
#print axioms C13_accept_iff
#print axioms C13_try_eq
#print axioms C13_try_eq'
#print axioms C13_accept_no_tree
#print axioms C13_raise_is_failure
#print axioms C13_raise_is_failure'
#print axioms C13_false_is_failure
#print axioms C13_expected
#print axioms C13_inner_failure
#print axioms C13_inner_leak
#print axioms C13_bundle
#print axioms C13_bundle_one
#print axioms C13_bundle_none
#print axioms C13_foreign_refused
#print axioms C13_foreign_never_builds
#print axioms C13_all_any_not
#print axioms C13_not
#print axioms C13_holds_all
#print axioms C13_short_circuit
#print axioms C13_all_first_false
#print axioms C13_all_first_raise
#print axioms C13_any_first_true
#print axioms C13_any_first_raise
#print axioms C13_stock_table
#print axioms C13_stock_sem
#print axioms C13_range_inclusive
#print axioms C13_combinator_bodies
#print axioms C13_stock_int
#print axioms C13_stock_bool
#print axioms C13_stock_float
#print axioms C13_stock_float_values
#print axioms C13_stock_len
#print axioms C13_pyLen
#print axioms C13_stock_empty_list
#print axioms C13_stock_type_error
#print axioms C13_stock_str_message
#print axioms C13_val_range_real
#print axioms C13_val_range
#print axioms C13_len_range
#print axioms C13_len_range_list
#print axioms C13_nan
#print axioms C13_nan_range
#print axioms C13_serialise_ignores

end PaneModel
