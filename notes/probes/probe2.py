import typing as t, enum, collections, re, datetime, gc, warnings, copy, inspect
import pane
from pane import from_data, convert, into_data, ConvertError
from pane.convert import make_converter
from pane.annotations import Tagged, Condition
from test_conv_helpers import *

def tryit(label, f):
    try:
        r = f()
        print(f"{label}: OK -> {r!r} ({type(r).__name__})")
    except BaseException as e:
        print(f"{label}: RAISES {type(e).__name__}: {str(e)[:300]!r}")

# C10 cache id reuse
def c10():
    for i in range(5):
        make_converter(dict[str, float]).expected()
    return make_converter(list[str]).expected()
tryit("C10 list[str] after dict[str,float]", c10)
def c10b():
    convert([1, 'a', 2.0], (int, str, float))
    return convert(['a', 2.0, 1], (str, float, int))
tryit("C10b tuple types", c10b)
print("cache size", len(make_converter.cache))

# C05 tuple output includes kw-only
class K(pane.PaneBase, in_format=('tuple','struct'), out_format='tuple'):
    a: int = 1
    b: int = pane.field(default=2, kw_only=True)
tryit("K into", lambda: K(a=3, b=4).into_data())
tryit("K roundtrip", lambda: K.from_data(K(a=3, b=4).into_data()))
# C15 rename + aliases
class R(pane.PaneBase, rename='camel'):
    my_field: int = pane.field(aliases=('mf',))
    other_field: int = 0
tryit("R into", lambda: R(my_field=1).into_data())
tryit("R roundtrip", lambda: R.from_data(R(my_field=1).into_data()))
tryit("R from my_field", lambda: R.from_data({'my_field': 1}))
tryit("R from myField", lambda: R.from_data({'myField': 1}))
tryit("R from mf", lambda: R.from_data({'mf': 1}))
tryit("R from other_field", lambda: R.from_data({'mf': 1, 'other_field': 1}))
tryit("R from otherField", lambda: R.from_data({'mf': 1, 'otherField': 1}))
# C16 unsafe_hash
def mk():
    class H(pane.PaneBase, unsafe_hash=True, frozen=False):
        a: int = 1
    return hash(H())
tryit("unsafe_hash", mk)
class F(pane.PaneBase):
    a: int = 1
    b: int = pane.field(default=2, compare=False)
tryit("hash F", lambda: hash(F()) == hash(F(b=5)))
tryit("eq F", lambda: F() == F(b=5))
tryit("copy F", lambda: (copy.copy(F(a=3)), copy.copy(F(a=3)).dict(set_only=True)))
tryit("deepcopy F", lambda: (copy.deepcopy(F(a=3)), copy.deepcopy(F(a=3)).dict(set_only=True)))
tryit("replace F", lambda: F(a=3).__replace__(b=7))
tryit("replace F invalid", lambda: F(a=3).__replace__(b='s'))
def fro():
    f = F(); f.a = 5
tryit("frozen set", fro)
def frod():
    f = F(); del f.a
tryit("frozen del", frod)
tryit("F < 5", lambda: F() < 5)
tryit("F == 5", lambda: F() == 5)
class NF(pane.PaneBase, frozen=False):
    a: int = 1
def nf():
    x = NF(); x.a = 's'; return x, x.dict(set_only=True)
tryit("nonfrozen set (no validation)", nf)
tryit("hash NF", lambda: hash(NF()))
class NE(pane.PaneBase, eq=False):
    a: int = 1
tryit("NE eq", lambda: NE() == NE())
tryit("hash NE", lambda: hash(NE()) is not None)
# C17 generics
T = t.TypeVar('T'); U = t.TypeVar('U'); V = t.TypeVar('V')
class G(pane.PaneBase, t.Generic[T, U]):
    x: T
    y: U
def c17():
    class H(G[int, V], t.Generic[V]):
        z: V
    print("H params", H.__parameters__)
    return inspect.signature(H[str])
tryit("C17 H[str]", c17)
# C18 custom inheritance
class DoubleInt(pane.converters.Converter):
    def into_data(self, val): return val // 2
    def expected(self, plural=False): return 'int'
    def try_convert(self, val):
        if isinstance(val, int): return val * 2
        raise pane.errors.ParseInterrupt()
    def collect_errors(self, val):
        return None if isinstance(val, int) else pane.errors.WrongTypeError('int', val)
class CP(pane.PaneBase, custom={int: DoubleInt()}):
    x: int
class CC(CP):
    y: int
class CC2(CP, custom={str: make_converter(str)}):
    y: int
tryit("CP", lambda: CP.from_data({'x': 1}))
tryit("CC (inherit custom)", lambda: CC.from_data({'x': 1, 'y': 1}))
tryit("CC2 (own custom)", lambda: CC2.from_data({'x': 1, 'y': 1}))
class OPT(pane.PaneBase, allow_extra=True, in_format=('tuple','struct'), kw_only=False, frozen=False):
    x: int = 0
class OPT2(OPT):
    y: int = 0
print("OPT2 opts", OPT2.__pane_info__.opts)
