import PaneModel.Model.IntoData
/-!
# Type expressions and `make_converter`
-/
namespace PaneModel

inductive Ann
  | cond (c : CondExpr) (fmt : ExpFmt)
  | tagged (tag : String) (layout : Layout)
  | foreign
  deriving Repr, Inhabited

/-- Python type expressions as `make_converter` sees them (after `typing`'s own normalisation:
`Optional[X]` is `Union[X, None]`, nested unions are flat and de-duplicated). -/
inductive Ty
  | any
  | scalar (name : String)                 -- bool int float complex str bytes bytearray NoneType Decimal Fraction datetime date time Path:<cls>
  | seq (origin : String) (arg : Option Ty) -- list Sequence MutableSequence set MutableSet Set frozenset deque tuple(variadic / bare)
  | tupleFixed (ts : List Ty)
  | mapping (origin : String) (args : List Ty)
  | union (ts : List Ty)
  | literal (vs : List Val)
  | enum (name : String)
  | sub (name : String) (base : String)     -- user subclass of a basic scalar type
  | structLit (names : List String) (ts : List Ty)
  | tupleLit (ts : List Ty)
  | cls (name : String) (args : List Ty)
  | annotated (t : Ty) (anns : List Ann)
  | typeVar (name : String) (bound : Option Ty) (constraints : List Ty)
  | pattern (arg : Option String)
  | ndarray
  | forwardRef (s : String)
  | unsupported (what : String)
  | valueOrList (arg : Option Ty)          -- `pane.types.ValueOrList` / `ValueOrList[T]` (a `HasConverter` class)
  deriving Repr, Inhabited

inductive BuildErr
  | typeError (msg : String)
  | unsupportedAnnotation
  | attributeError (msg : String)
  | other (msg : String)
  deriving Repr, Inhabited, DecidableEq

/-- A converter handler (`custom=` / class `custom=`): answers for some type heads with a user
converter (`.custom id`), `NotImplemented` otherwise.  `exactOnly` = mapping form (`{type: conv}`),
which matches only the unparameterised type. -/
structure Handler where
  entries : List (String × String)   -- (type head, custom converter id)
  exactOnly : Bool
  deriving Repr, Inhabited

structure Handlers where
  globals : List Handler := []
  classLocal : List Handler := []
  deriving Repr, Inhabited

def Handler.answer (h : Handler) (head : String) (nargs : Nat) : Option String :=
  match h.entries.lookup head with
  | some id => if h.exactOnly && nargs != 0 then none else some id
  | none => none

/-- the loop `for handler in handlers:` — first handler (globals, then class-local) that answers -/
def Handlers.answer (hs : Handlers) (head : String) (nargs : Nat) : Option String :=
  (hs.globals ++ hs.classLocal).findSome? fun h => h.answer head nargs

structure ClassEntry where
  key : String                 -- lookup key: "C" or "C[int,str]"
  info : PaneInfo
  fieldTys : List Ty
  fieldConv : List (Option String)   -- `field(converter=…)` as a custom converter id
  classHandlers : List Handler       -- effective `opts.class_handlers`
  deriving Repr, Inhabited

structure Env where
  enums : List (String × List Val) := []
  classes : List ClassEntry := []
  /-- class attributes of user (non-pane) variant types, for `Tagged`: (type name, attr, value) -/
  attrs : List (String × String × Val) := []
  registered : List Handler := []     -- `register_converter_handler` (besides numpy's)
  deriving Repr, Inhabited

def kindTyName : Val → Option String
  | .none => some "NoneType" | .bool _ => some "bool" | .int _ => some "int" | .float _ => some "float"
  | .complex _ _ => some "complex" | .str _ => some "str" | .bytes _ => some "bytes"
  | .tuple _ => some "tuple" | .list _ => some "list" | .dict _ => some "dict"
  | _ => none

def dedupStr : List String → List String
  | [] => []
  | x :: xs => x :: (dedupStr xs).filter (· != x)

/-- the head (`base`) of a type, as handlers and tables see it -/
def Ty.head : Ty → String
  | .any => "Any" | .scalar n => n
  | .seq o _ => o | .tupleFixed _ => "tuple" | .mapping o _ => o | .union _ => "Union"
  | .literal _ => "Literal" | .enum n => n | .sub n _ => n | .structLit _ _ => "dict" | .tupleLit _ => "tuple"
  | .cls n _ => n | .annotated _ _ => "Annotated" | .typeVar n _ _ => n | .pattern _ => "Pattern"
  | .ndarray => "ndarray" | .forwardRef _ => "ForwardRef" | .unsupported w => w
  | .valueOrList _ => "ValueOrList"

def Ty.nargs : Ty → Nat
  | .seq _ (some _) => 1 | .tupleFixed ts => ts.length | .mapping _ as => as.length
  | .cls _ as => as.length | .pattern (some _) => 1 | .valueOrList (some _) => 1 | _ => 0

def seqKind (origin : String) : Option String := Facts.abstractMapping.lookup origin

def clsKey (name : String) (args : List Ty) : String :=
  if args.isEmpty then name else name ++ "[" ++ ",".intercalate (args.map Ty.head) ++ "]"

def exAll {α ε : Type} : List (Except ε α) → Except ε (List α)
  | [] => .ok []
  | x :: xs =>
    match x with
    | .ok a =>
      match exAll xs with
      | .ok as => .ok (a :: as)
      | .error e => .error e
    | .error e => .error e

/-- declared tag of a variant type (`getattr(ty, tag)`): a dataclass's field default, or a user
class attribute. -/
def tagAttr (env : Env) (tag : String) (t : Ty) : Option Val :=
  match t with
  | .cls name args =>
    match env.classes.find? (·.key == clsKey name args) with
    | some ce =>
      match ce.info.fields.find? (·.name == tag) with
      | some f => match f.default with | .value v => some v | _ => none
      | none => none
    | none => none
  | t => (env.attrs.find? fun (n, a, _) => n == t.head && a == tag).map (·.2.2)

/-- `TaggedUnionConverter.__init__`: the tag map, refusing duplicates and absent attributes -/
def buildTagMap (env : Env) (tag : String) : List Ty → Nat → List (Val × Nat) → Except BuildErr (List (Val × Nat))
  | [], _, acc => .ok acc
  | t :: ts, i, acc =>
    match tagAttr env tag t with
    | none => .error (.typeError ("Tag '" ++ tag ++ "' not found inside type"))
    | some v =>
      if !v.hashable then .error (.typeError "unhashable tag value")
      else if (Val.lookupPy v acc).isSome then .error (.typeError "Tag value matches multiple types")
      else buildTagMap env tag ts (i + 1) (acc ++ [(v, i)])

/-- `_annotated_converter`: conditions are buffered and bundled; a `Tagged` needs the bare Union
(`unionPart` = the member converters and member types when the annotated type is a Union). -/
def annGo (env : Env) (unionPart : Option (Except BuildErr (List Conv) × List Ty))
    (conv : Option Conv) (conds : List (CondExpr × ExpFmt)) :
    List Ann → Except BuildErr (Option Conv × List (CondExpr × ExpFmt))
  | [] => .ok (conv, conds)
  | .cond c f :: rest => annGo env unionPart conv (conds ++ [(c, f)]) rest
  | .foreign :: _ => .error .unsupportedAnnotation
  | .tagged tag layout :: rest =>
    if conv.isSome || !conds.isEmpty then .error (.typeError "'Tagged' must surround a 'Union' type.")
    else match unionPart with
      | some (.ok cs, ts) =>
        match buildTagMap env tag ts 0 [] with
        | .ok tm => annGo env unionPart (some (.tagged cs tag tm layout)) [] rest
        | .error e => .error e
      | some (.error e, _) => .error e
      | none => .error (.typeError "'Tagged' must surround a 'Union' type.")

mutual
/-- `make_converter(ty, handlers)`.  `mkCls` builds the `PaneConverter` of a (possibly subscripted)
dataclass; it is a parameter so that this recursion stays structural on the type expression. -/
def mkTy (env : Env) (mkCls : ClassEntry → Handlers → Except BuildErr Conv) (H : Handlers) :
    Ty → Except BuildErr Conv
  | .any => .ok .any
  | .typeVar _ bound constraints =>
    match bound with
    | some b => mkTy env mkCls H b
    | none =>
      if constraints.length > 1 then (exAll (mkTys env mkCls H constraints)).map .union
      else .ok .any
  | .structLit names ts => (exAll (mkTys env mkCls H ts)).map fun cs => .struct names cs
  | .tupleLit ts => (exAll (mkTys env mkCls H ts)).map .tuple
  | .forwardRef s => .error (.typeError ("Unresolved forward reference '" ++ s ++ "'"))
  | .annotated t anns =>
    let unionPart : Option (Except BuildErr (List Conv) × List Ty) := match t with
      | .union ts => some (exAll (mkTys env mkCls H ts), ts)
      | _ => none
    match annGo env unionPart none [] anns with
    | .error e => .error e
    | .ok (conv, conds) =>
      let base : Except BuildErr Conv := match conv with
        | some c => .ok c
        | none => mkTy env mkCls H t
      match base with
      | .error e => .error e
      | .ok b =>
        match conds with
        | [] => .ok b
        | [(c, f)] => .ok (.cond b c f)
        | cs => .ok (.cond b (.all (cs.map (·.1))) .satisfying)
  | .union ts => (exAll (mkTys env mkCls H ts)).map .union
  | .literal vs => .ok (.literal vs)
  | .unsupported w => .error (.typeError ("Unsupported special type '" ++ w ++ "'"))
  | .scalar name =>
    match H.answer name 0 with
    | some id => .ok (.custom id)
    | none =>
      match Facts.basicTable.find? (·.1 == name) with
      | some (_, row) => .ok row
      | none =>
        match (env.registered.findSome? fun h => h.answer name 0) with
        | some id => .ok (.custom id)
        | none =>
          if name.startsWith "Path:" then
            if name == "Path:PathLike" then .ok (.scalar "Path:PurePath" [.str, .pathLike] .str "a path" "paths")
            else .ok (.scalar name [.str, .pathLike] .str "a path" "paths")
          else .error (.typeError ("No converter for type '" ++ name ++ "'"))
  | .pattern arg =>
    match H.answer "Pattern" (if arg.isSome then 1 else 0) with
    | some id => .ok (.custom id)
    | none =>
      match arg with
      | none => (mkInner (.scalar "str")).map (.pattern false)
      | some "str" => (mkInner (.scalar "str")).map (.pattern false)
      | some "bytes" => (mkInner (.scalar "bytes")).map (.pattern true)
      | some _ => .error (.typeError "Pattern only accepts a 'str' or 'bytes' type argument")
  | .cls name args =>
    match H.answer name args.length with
    | some id => .ok (.custom id)
    | none =>
      match env.classes.find? (·.key == clsKey name args) with
      | some ce => mkCls ce H
      | none => .error (.typeError ("unknown class " ++ clsKey name args))
  | .valueOrList arg =>
    -- the `HasConverter` rank (as `.cls`): after the passed handlers, before the scalar table.
    -- `ValueOrList._converter(*args, handlers)` builds `ValueOrListConverter(args[0] or Any, handlers)`, whose
    -- members are `make_converter(T, handlers)` and `make_converter(List[T], handlers)`.
    -- (Not modelled: a passed handler that answers for `list` itself would replace the second member.)
    match H.answer "ValueOrList" (if arg.isSome then 1 else 0) with
    | some id => .ok (.custom id)
    | none =>
      match arg with
      | some a => (mkTy env mkCls H a).map .vol
      | none => .ok (.vol .any)
  | .ndarray =>
    match H.answer "ndarray" 0 with
    | some id => .ok (.custom id)
    | none => .ok (.nested .any)
  | .enum name =>
    match H.answer name 0 with
    | some id => .ok (.custom id)
    | none =>
      match (env.registered.findSome? fun h => h.answer name 0) with
      | some id => .ok (.custom id)
      | none =>
        match env.enums.lookup name with
        | none => .error (.typeError ("unknown enum " ++ name))
        | some vals =>
          if vals.any (!·.hashable) then .error (.typeError "All enum members must be hashable")
          else
            let members := Val.dedupPy vals
            match exAll (members.map fun v => match kindTyName v with
                | some n => Except.ok n | none => Except.error (BuildErr.typeError "All enum members must be data-interchange types")) with
            | .error e => .error e
            | .ok names =>
              let tys := (dedupStr names).map fun n =>
                if n == "tuple" then Ty.seq "tuple" none else if n == "NoneType" then Ty.scalar "NoneType" else Ty.scalar n
              let inner : Except BuildErr Conv := match tys with
                | [] => .error (.typeError "reduce() of empty iterable with no initial value")
                | [t] => mkInner t
                | ts => (exAll (ts.map mkInner)).map .union
              inner.map fun ic => .enum name members ic
  | .tupleFixed ts =>
    match H.answer "tuple" ts.length with
    | some id => .ok (.custom id)
    | none =>
      match (env.registered.findSome? fun h => h.answer "tuple" ts.length) with
      | some id => .ok (.custom id)
      | none => (exAll (mkTys env mkCls H ts)).map .tuple
  | .seq origin arg =>
    match H.answer origin (if arg.isSome then 1 else 0) with
    | some id => .ok (.custom id)
    | none =>
      match (env.registered.findSome? fun h => h.answer origin (if arg.isSome then 1 else 0)) with
      | some id => .ok (.custom id)
      | none =>
      match seqKind origin with
      | none => .error (.typeError ("No converter for abstract type '" ++ origin ++ "'"))
      | some kind =>
        match arg with
        | some a => (mkTy env mkCls H a).map (.seq kind)
        | none => .ok (.seq kind .any)
  | .mapping origin args =>
    match H.answer origin args.length with
    | some id => .ok (.custom id)
    | none =>
      match (env.registered.findSome? fun h => h.answer origin args.length) with
      | some id => .ok (.custom id)
      | none =>
      match seqKind origin with
      | none => .error (.typeError ("No converter for abstract type '" ++ origin ++ "'"))
      | some kind =>
        if kind == "Counter" then
          match args with
          | a :: _ =>
            match mkTy env mkCls H a, mkInner (.scalar "int") with
            | .ok k, .ok v => .ok (.dict kind k v)
            | .error e, _ => .error e
            | _, .error e => .error e
          | [] => (mkInner (.scalar "int")).map (.dict kind .any)
        else
          match args with
          | [] => .ok (.dict kind .any .any)
          | [a] => (mkTy env mkCls H a).map fun k => .dict kind k .any
          | a :: b :: _ =>
            match mkTy env mkCls H a, mkTy env mkCls H b with
            | .ok k, .ok v => .ok (.dict kind k v)
            | .error e, _ => .error e
            | _, .error e => .error e
  | .sub name base =>
    match H.answer name 0 with
    | some id => .ok (.custom id)
    | none =>
      match (env.registered.findSome? fun h => h.answer name 0) with
      | some id => .ok (.custom id)
      | none =>
        if Facts.strSubclassIsSequence == some true && (base == "str" || base == "bytes" || base == "bytearray") then
          .ok (.seq ("sub:" ++ name) .any)
        else (mkInner (.scalar base)).map (.delegate name)
where
  /-- converters of leaf scalar types (no recursion into the type needed) -/
  mkInner (t : Ty) : Except BuildErr Conv :=
    match t with
    | .scalar name =>
      match H.answer name 0 with
      | some id => .ok (.custom id)
      | none =>
        match Facts.basicTable.find? (·.1 == name) with
        | some (_, row) => .ok row
        | none => .error (.typeError ("No converter for type '" ++ name ++ "'"))
    | .seq origin none =>
      match H.answer origin 0 with
      | some id => .ok (.custom id)
      | none => (seqKind origin).elim (.error (.typeError "No converter")) fun k => .ok (.seq k .any)
    | _ => .error (.typeError "mkInner")
def mkTys (env : Env) (mkCls : ClassEntry → Handlers → Except BuildErr Conv) (H : Handlers) :
    List Ty → List (Except BuildErr Conv)
  | [] => []
  | t :: ts => mkTy env mkCls H t :: mkTys env mkCls H ts
end

/-- `PaneConverter.__init__`: merge handlers (call-level, then this class's, then enclosing
classes'), a field's own converter wins. -/
def mkPane (mk : Handlers → Ty → Except BuildErr Conv) (ce : ClassEntry) (H : Handlers) : Except BuildErr Conv :=
  let H' : Handlers := { globals := H.globals, classLocal := ce.classHandlers ++ H.classLocal }
  let one := fun (p : Ty × Option String) =>
    match p.2 with
    | some id => Except.ok (Conv.custom id)
    | none => mk H' p.1
  (exAll ((ce.fieldTys.zip ce.fieldConv).map one)).map fun cs => .pane ce.info cs

/-- `make_converter` with dataclass nesting bounded by fuel (a dataclass can only mention classes
that already exist, so nesting depth ≤ number of classes). -/
def mkF (env : Env) : Nat → Handlers → Ty → Except BuildErr Conv
  | 0, _, _ => .error (.other "class nesting too deep")
  | n + 1, H, t => mkTy env (fun ce H' => mkPane (mkF env n) ce H') H t

def makeConverter (env : Env) (H : Handlers) (t : Ty) : Except BuildErr Conv :=
  mkF env (env.classes.length + 2) H t

end PaneModel
