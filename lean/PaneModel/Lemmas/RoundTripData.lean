import PaneModel.Lemmas.RoundTripBasic
/-!
# Round trip: facts about `isData`, `depth`, `eqv`, `eqvData`
-/
namespace PaneModel
namespace Val

/-! ## `isData` -/

theorem allData_iff : ∀ {xs : List Val}, allData xs = true ↔ ∀ x ∈ xs, isData x = true
  | [] => by simp [allData]
  | x :: xs => by simp [allData, allData_iff (xs := xs)]

theorem allDataKV_iff : ∀ {kvs : List (Val × Val)},
    allDataKV kvs = true ↔ ∀ p ∈ kvs, isData p.1 = true ∧ isData p.2 = true
  | [] => by simp [allDataKV]
  | (k, v) :: r => by simp [allDataKV, allDataKV_iff (kvs := r), and_assoc]

mutual
theorem isData_isInterchange : (v : Val) → isData v = true → isInterchange v = true
  | .none, _ | .bool _, _ | .int _, _ | .float _, _ | .complex _ _, _ | .str _, _ | .bytes _, _
  | .bytearray _, _ => by simp only [isInterchange]
  | .list xs, h => by
    simp only [isData] at h; simp only [isInterchange]; exact allData_allInterchange xs h
  | .tuple xs, h => by
    simp only [isData] at h; simp only [isInterchange]; exact allData_allInterchange xs h
  | .dict kvs, h => by
    simp only [isData, Bool.and_eq_true] at h; simp only [isInterchange]
    exact allDataKV_allInterchange kvs h.1.1
  | .set _, h | .frozenset _, h | .deque _, h | .mapOf _ _, h | .opaque _ _, h | .enumMem _ _, h
  | .sub _ _, h | .obj _ _ _, h | .wrap _ _, h => by simp only [isData] at h; cases h
theorem allData_allInterchange : (xs : List Val) → allData xs = true → allInterchange xs = true
  | [], _ => rfl
  | x :: xs, h => by
    simp only [allData, Bool.and_eq_true] at h
    simp only [allInterchange, Bool.and_eq_true]
    exact ⟨isData_isInterchange x h.1, allData_allInterchange xs h.2⟩
theorem allDataKV_allInterchange : (kvs : List (Val × Val)) → allDataKV kvs = true →
    allInterchangeKV kvs = true
  | [], _ => rfl
  | (k, v) :: r, h => by
    simp only [allDataKV, Bool.and_eq_true] at h
    simp only [allInterchangeKV, Bool.and_eq_true]
    exact ⟨⟨isData_isInterchange k h.1.1, isData_isInterchange v h.1.2⟩, allDataKV_allInterchange r h.2⟩
end

theorem isData_seqItems {v : Val} (h : isData v = true) : ∀ u ∈ v.seqItems, isData u = true := by
  cases v with
  | list xs => simp only [isData] at h; exact allData_iff.1 h
  | tuple xs => simp only [isData] at h; exact allData_iff.1 h
  | deque xs => simp only [isData] at h; cases h
  | _ => intro u hu; simp only [seqItems] at hu; cases hu

theorem isData_mapItems {v : Val} (h : isData v = true) :
    ∀ p ∈ v.mapItems, isData p.1 = true ∧ isData p.2 = true := by
  cases v with
  | dict kvs => simp only [isData, Bool.and_eq_true] at h; exact allDataKV_iff.1 h.1.1
  | mapOf k kvs => simp only [isData] at h; cases h
  | _ => intro u hu; simp only [mapItems] at hu; cases hu

theorem isData_list {ds : List Val} (h : ∀ d ∈ ds, isData d = true) : isData (.list ds) = true := by
  simp only [isData]; exact allData_iff.2 h

theorem isData_tuple {ds : List Val} (h : ∀ d ∈ ds, isData d = true) : isData (.tuple ds) = true := by
  simp only [isData]; exact allData_iff.2 h

theorem isData_dict {kvs : List (Val × Val)} (h : ∀ p ∈ kvs, isData p.1 = true ∧ isData p.2 = true)
    (hh : ∀ p ∈ kvs, p.1.hashable = true) (hd : keysDistinct (kvs.map (·.1)) = true) :
    isData (.dict kvs) = true := by
  simp only [isData, Bool.and_eq_true, List.all_eq_true]
  refine ⟨⟨allDataKV_iff.2 h, ?_⟩, hd⟩
  intro k hk
  obtain ⟨p, hp, rfl⟩ := List.mem_map.1 hk
  exact hh p hp

/-! ## `depth` -/

theorem depth_le_depthList : ∀ {xs : List Val} {x : Val}, x ∈ xs → depth x ≤ depthList xs
  | y :: ys, x, h => by
    simp only [depthList]
    rcases List.mem_cons.1 h with rfl | h
    · exact Nat.le_max_left ..
    · exact Nat.le_trans (depth_le_depthList h) (Nat.le_max_right ..)

theorem depth_le_depthKV : ∀ {kvs : List (Val × Val)} {p : Val × Val}, p ∈ kvs →
    depth p.1 ≤ depthKV kvs ∧ depth p.2 ≤ depthKV kvs
  | (k, v) :: r, p, h => by
    simp only [depthKV]
    rcases List.mem_cons.1 h with rfl | h
    · exact ⟨Nat.le_trans (Nat.le_max_left ..) (Nat.le_max_left ..),
        Nat.le_trans (Nat.le_max_right ..) (Nat.le_max_left ..)⟩
    · have := depth_le_depthKV h
      exact ⟨Nat.le_trans this.1 (Nat.le_max_right ..), Nat.le_trans this.2 (Nat.le_max_right ..)⟩

theorem depth_le_depthF : ∀ {fs : List (String × Val)} {p : String × Val}, p ∈ fs →
    depth p.2 ≤ depthF fs
  | (n, v) :: r, p, h => by
    simp only [depthF]
    rcases List.mem_cons.1 h with rfl | h
    · exact Nat.le_max_left ..
    · exact Nat.le_trans (depth_le_depthF h) (Nat.le_max_right ..)

theorem depth_payload {x y : Val} (h : y ∈ x.payload) : depth y < depth x := by
  cases x <;> simp only [payload] at h <;> first
    | (simp only [depth]; exact Nat.lt_succ_of_le (depth_le_depthList h))
    | cases h

theorem depth_mapItems {x : Val} {p : Val × Val} (h : p ∈ x.mapItems) :
    depth p.1 < depth x ∧ depth p.2 < depth x := by
  cases x <;> simp only [mapItems] at h <;> first
    | (simp only [depth]
       exact ⟨Nat.lt_succ_of_le (depth_le_depthKV h).1, Nat.lt_succ_of_le (depth_le_depthKV h).2⟩)
    | cases h

/-! ## `eqv`, `eqvData` are reflexive -/

mutual
theorem eqv_refl : (v : Val) → eqv v v = true
  | .none => by simp only [eqv]
  | .bool _ | .int _ | .float _ | .str _ | .bytes _ | .bytearray _ => by simp [eqv]
  | .complex _ _ | .opaque _ _ | .enumMem _ _ => by simp [eqv]
  | .list xs | .tuple xs | .deque xs => by simp only [eqv]; exact eqvList_refl xs
  | .set xs | .frozenset xs => by
    simp only [eqv, beq_self_eq_true, Bool.true_and]; exact eqvSub_refl xs xs (fun _ h => h)
  | .dict kvs => by simp only [eqv]; exact eqvPairs_refl kvs
  | .mapOf _ kvs => by simp only [eqv, beq_self_eq_true, Bool.true_and]; exact eqvPairs_refl kvs
  | .sub _ b => by simp only [eqv, beq_self_eq_true, Bool.true_and]; exact eqv_refl b
  | .wrap _ b => by simp only [eqv, beq_self_eq_true, Bool.true_and]; exact eqv_refl b
  | .obj _ fs _ => by
    simp only [eqv, beq_self_eq_true, Bool.true_and, Bool.and_true]; exact eqvFields_refl fs
theorem eqvList_refl : (xs : List Val) → eqvList xs xs = true
  | [] => by simp only [eqvList]
  | x :: xs => by simp only [eqvList, eqv_refl x, eqvList_refl xs, Bool.and_self]
theorem eqvSub_refl : (as bs : List Val) → (∀ a ∈ as, a ∈ bs) → eqvSub as bs = true
  | [], _, _ => by simp only [eqvSub]
  | a :: as, bs, h => by
    simp only [eqvSub, Bool.and_eq_true]
    exact ⟨List.any_eq_true.2 ⟨a, h a (List.mem_cons_self ..), eqv_refl a⟩,
      eqvSub_refl as bs (fun a' ha' => h a' (List.mem_cons_of_mem _ ha'))⟩
theorem eqvPairs_refl : (kvs : List (Val × Val)) → eqvPairs kvs kvs = true
  | [] => by simp only [eqvPairs]
  | (k, v) :: r => by simp only [eqvPairs, eqv_refl k, eqv_refl v, eqvPairs_refl r, Bool.and_self]
theorem eqvFields_refl : (fs : List (String × Val)) → eqvFields fs fs = true
  | [] => by simp only [eqvFields]
  | (n, v) :: r => by
    simp only [eqvFields, eqv_refl v, eqvFields_refl r, beq_self_eq_true, Bool.and_self]
end

mutual
theorem eqvData_refl : (v : Val) → isData v = true → eqvData v v = true
  | .none, _ => by simp only [eqvData]
  | .bool _, _ | .int _, _ | .float _, _ | .str _, _ | .bytes _, _ | .bytearray _, _ => by simp [eqvData]
  | .complex _ _, _ => by simp [eqvData]
  | .list xs, h => by
    simp only [isData] at h
    simp only [eqvData, beq_self_eq_true, Bool.true_and]
    exact eqvDataSub_refl xs xs h (fun _ h => h)
  | .tuple xs, h => by simp only [isData] at h; simp only [eqvData]; exact eqvDataList_refl xs h
  | .dict kvs, h => by
    simp only [isData, Bool.and_eq_true] at h; simp only [eqvData]; exact eqvDataPairs_refl kvs h.1.1
  | .set _, h | .frozenset _, h | .deque _, h | .mapOf _ _, h | .opaque _ _, h | .enumMem _ _, h
  | .sub _ _, h | .obj _ _ _, h | .wrap _ _, h => by simp only [isData] at h; cases h
theorem eqvDataList_refl : (xs : List Val) → allData xs = true → eqvDataList xs xs = true
  | [], _ => by simp only [eqvDataList]
  | x :: xs, h => by
    simp only [allData, Bool.and_eq_true] at h
    simp only [eqvDataList, eqvData_refl x h.1, eqvDataList_refl xs h.2, Bool.and_self]
theorem eqvDataSub_refl : (as bs : List Val) → allData as = true → (∀ a ∈ as, a ∈ bs) →
    eqvDataSub as bs = true
  | [], _, _, _ => by simp only [eqvDataSub]
  | a :: as, bs, hd, h => by
    simp only [allData, Bool.and_eq_true] at hd
    simp only [eqvDataSub, Bool.and_eq_true]
    exact ⟨List.any_eq_true.2 ⟨a, h a (List.mem_cons_self ..), eqvData_refl a hd.1⟩,
      eqvDataSub_refl as bs hd.2 (fun a' ha' => h a' (List.mem_cons_of_mem _ ha'))⟩
theorem eqvDataPairs_refl : (kvs : List (Val × Val)) → allDataKV kvs = true → eqvDataPairs kvs kvs = true
  | [], _ => by simp only [eqvDataPairs]
  | (k, v) :: r, h => by
    simp only [allDataKV, Bool.and_eq_true] at h
    simp only [eqvDataPairs, eqvData_refl k h.1.1, eqvData_refl v h.1.2, eqvDataPairs_refl r h.2,
      Bool.and_self]
end

/-! ## `Val.beq` is sound (lets closed equalities be checked by `decide +kernel`) -/

mutual
theorem beq_eq : (a b : Val) → a.beq b = true → a = b
  | .none, b, h => by cases b <;> simp_all [Val.beq]
  | .bool _, b, h => by cases b <;> simp_all [Val.beq]
  | .int _, b, h => by cases b <;> simp_all [Val.beq]
  | .float _, b, h => by cases b <;> simp_all [Val.beq]
  | .complex _ _, b, h => by cases b <;> simp_all [Val.beq]
  | .str _, b, h => by cases b <;> simp_all [Val.beq]
  | .bytes _, b, h => by cases b <;> simp_all [Val.beq]
  | .bytearray _, b, h => by cases b <;> simp_all [Val.beq]
  | .opaque _ _, b, h => by cases b <;> simp_all [Val.beq]
  | .enumMem _ _, b, h => by cases b <;> simp_all [Val.beq]
  | .list xs, b, h => by
    cases b <;> simp only [Val.beq] at h <;> first | exact congrArg _ (beqList_eq _ _ h) | cases h
  | .tuple xs, b, h => by
    cases b <;> simp only [Val.beq] at h <;> first | exact congrArg _ (beqList_eq _ _ h) | cases h
  | .set xs, b, h => by
    cases b <;> simp only [Val.beq] at h <;> first | exact congrArg _ (beqList_eq _ _ h) | cases h
  | .frozenset xs, b, h => by
    cases b <;> simp only [Val.beq] at h <;> first | exact congrArg _ (beqList_eq _ _ h) | cases h
  | .deque xs, b, h => by
    cases b <;> simp only [Val.beq] at h <;> first | exact congrArg _ (beqList_eq _ _ h) | cases h
  | .dict kvs, b, h => by
    cases b <;> simp only [Val.beq] at h <;> first | exact congrArg _ (beqPairs_eq _ _ h) | cases h
  | .mapOf k kvs, b, h => by
    cases b <;> simp only [Val.beq, Bool.and_eq_true, beq_iff_eq] at h <;>
      first | (rw [h.1, beqPairs_eq _ _ h.2]) | cases h
  | .sub c a, b, h => by
    cases b <;> simp only [Val.beq, Bool.and_eq_true, beq_iff_eq] at h <;>
      first | (rw [h.1, beq_eq _ _ h.2]) | cases h
  | .wrap c a, b, h => by
    cases b <;> simp only [Val.beq, Bool.and_eq_true, beq_iff_eq] at h <;>
      first | (rw [h.1, beq_eq _ _ h.2]) | cases h
  | .obj c fs s, b, h => by
    cases b <;> simp only [Val.beq, Bool.and_eq_true, beq_iff_eq] at h <;>
      first | (rw [h.1.1, beqFields_eq _ _ h.1.2, h.2]) | cases h
theorem beqList_eq : (as bs : List Val) → beqList as bs = true → as = bs
  | [], [], _ => rfl
  | [], _ :: _, h => by simp only [Val.beqList] at h; cases h
  | _ :: _, [], h => by simp only [Val.beqList] at h; cases h
  | a :: as, b :: bs, h => by
    simp only [Val.beqList, Bool.and_eq_true] at h
    rw [beq_eq a b h.1, beqList_eq as bs h.2]
theorem beqPairs_eq : (as bs : List (Val × Val)) → beqPairs as bs = true → as = bs
  | [], [], _ => rfl
  | [], _ :: _, h => by simp only [Val.beqPairs] at h; cases h
  | _ :: _, [], h => by simp only [Val.beqPairs] at h; cases h
  | (a, b) :: as, (c, d) :: bs, h => by
    simp only [Val.beqPairs, Bool.and_eq_true] at h
    rw [beq_eq a c h.1.1, beq_eq b d h.1.2, beqPairs_eq as bs h.2]
theorem beqFields_eq : (as bs : List (String × Val)) → beqFields as bs = true → as = bs
  | [], [], _ => rfl
  | [], _ :: _, h => by simp only [Val.beqFields] at h; cases h
  | _ :: _, [], h => by simp only [Val.beqFields] at h; cases h
  | (a, b) :: as, (c, d) :: bs, h => by
    simp only [Val.beqFields, Bool.and_eq_true, beq_iff_eq] at h
    rw [h.1.1, beq_eq b d h.1.2, beqFields_eq as bs h.2]
end

end Val

/-- Boolean test "the outcome is the value `x`" -/
def okIs (o : Outcome Val) (x : Val) : Bool :=
  match o with
  | .ok y => y.beq x
  | _ => false

theorem okIs_eq {o : Outcome Val} {x : Val} (h : okIs o x = true) : o = .ok x := by
  cases o with
  | ok y => exact congrArg _ (Val.beq_eq y x h)
  | interrupt => cases h
  | leak e => cases h

/-- Boolean test "the result is the value `x`" -/
def exOkIs (o : Except Exc Val) (x : Val) : Bool :=
  match o with
  | .ok y => y.beq x
  | _ => false

theorem exOkIs_eq {o : Except Exc Val} {x : Val} (h : exOkIs o x = true) : o = .ok x := by
  cases o with
  | ok y => exact congrArg _ (Val.beq_eq y x h)
  | error e => cases h

end PaneModel
