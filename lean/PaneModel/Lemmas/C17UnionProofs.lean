import PaneModel.Lemmas.PaneProofsC17
import PaneModel.Props.C11Typing
/-!
# Helper lemmas for `Props/C17Union.lean`

`substTy`'s union case (`Model/Pane.lean`) against `typing`'s normalisation (`Model/TypingNorm.lean`): the pieces
(`dedupTy` is `dedupBy`, the one-level `flatMap` is `flatten`), `dedupBy` under a projection, `exAll` over pairs, and
the converter of a collapsed union.
-/
namespace PaneModel

open TypingNorm PaneProofs

/-- the key `dedupTy` compares: the printed form of the type expression -/
def c17u_key : Ty → String := fun t => toString (repr t)

/-- a substituted member as `typing` sees it: a member that became a union is a nested union of its members (one
level: the members of that union are taken as they are) -/
def c17u_mem : Ty → UMem Ty
  | .union us => .nested (us.map .one)
  | t => .one t

theorem c17u_dedupTy_eq : ∀ ts : List Ty, dedupTy ts = dedupBy c17u_key ts
  | [] => rfl
  | t :: ts => by
    rw [dedupTy, dedupBy, c17u_dedupTy_eq ts]
    rfl

theorem c17u_flattenMem (t : Ty) :
    flattenMem (c17u_mem t) = (match t with | .union us => us | t => [t]) := by
  cases t <;> first
    | (simp only [c17u_mem, flattenMem, flatten_map_one])
    | rfl

theorem c17u_flatten : ∀ l : List Ty, flatten (l.map c17u_mem) = c17_flat l
  | [] => rfl
  | t :: l => by
    have ih := c17u_flatten l
    unfold c17_flat at ih ⊢
    rw [List.map_cons, flatten_cons, List.flatMap_cons, ih, c17u_flattenMem]
    cases t <;> rfl

theorem c17u_collapse_eq (l : List Ty) : c17_collapse l = (match l with | [t] => t | ts' => .union ts') := by
  unfold c17_collapse
  rfl

/-! ## `dedupBy` under a projection -/

theorem c17u_dedupBy_map {α β : Type} (g : α → β) (key : β → String) :
    ∀ l : List α, (dedupBy (fun a => key (g a)) l).map g = dedupBy key (l.map g)
  | [] => rfl
  | a :: l => by
    rw [List.map_cons, dedupBy, dedupBy, List.map_cons, ← c17u_dedupBy_map g key l, List.filter_map]
    rfl

/-! ## `exAll` over pairs -/

theorem c17u_mkTys_eq_map (env : Env) (mkCls : ClassEntry → Handlers → Except BuildErr Conv) (H : Handlers) :
    ∀ ts : List Ty, mkTys env mkCls H ts = ts.map (mkTy env mkCls H)
  | [] => rfl
  | t :: ts => by
    show mkTy env mkCls H t :: mkTys env mkCls H ts = _
    rw [c17u_mkTys_eq_map env mkCls H ts, List.map_cons]

theorem c17u_exAll_cons_ok {ε γ : Type} {x : Except ε γ} {xs : List (Except ε γ)} {ys : List γ}
    (h : exAll (x :: xs) = .ok ys) : ∃ a as, x = .ok a ∧ exAll xs = .ok as ∧ ys = a :: as := by
  simp only [exAll] at h
  split at h
  · rename_i a
    split at h
    · rename_i as has
      cases h
      exact ⟨a, as, rfl, has, rfl⟩
    · cases h
  · cases h

/-- the built converters, paired with their types -/
theorem c17u_exAll_pairs {α ε γ : Type} (f : α → Except ε γ) :
    ∀ (l : List α) (cs : List γ), exAll (l.map f) = .ok cs →
      (l.zip cs).map Prod.fst = l ∧ (l.zip cs).map Prod.snd = cs ∧ ∀ p ∈ l.zip cs, f p.1 = .ok p.2
  | [], cs, h => by
    simp only [List.map_nil, exAll] at h
    cases h
    exact ⟨rfl, rfl, fun p hp => nomatch hp⟩
  | a :: l, cs, h => by
    rw [List.map_cons] at h
    obtain ⟨c, cs', hc, hcs', rfl⟩ := c17u_exAll_cons_ok h
    obtain ⟨h1, h2, h3⟩ := c17u_exAll_pairs f l cs' hcs'
    refine ⟨by rw [List.zip_cons_cons, List.map_cons, h1], by rw [List.zip_cons_cons, List.map_cons, h2], ?_⟩
    intro p hp
    rw [List.zip_cons_cons] at hp
    rcases List.mem_cons.1 hp with rfl | hp
    · exact hc
    · exact h3 p hp

theorem c17u_exAll_of_pairs {α ε γ : Type} (f : α → Except ε γ) :
    ∀ ps : List (α × γ), (∀ p ∈ ps, f p.1 = .ok p.2) → exAll ((ps.map Prod.fst).map f) = .ok (ps.map Prod.snd)
  | [], _ => rfl
  | p :: ps, h => by
    have ih := c17u_exAll_of_pairs f ps fun q hq => h q (List.mem_cons_of_mem _ hq)
    simp only [List.map_cons, exAll, h p (List.mem_cons_self ..), ih]

/-- members of a zip, by index -/
theorem c17u_mem_zip_index {α γ : Type} {l : List α} {cs : List γ} {p : α × γ} (hp : p ∈ l.zip cs) :
    ∃ (i : Nat) (hi : i < l.length) (hc : i < cs.length), p = (l[i], cs[i]) := by
  obtain ⟨i, hi, rfl⟩ := List.mem_iff_getElem.1 hp
  have hi' := hi
  rw [List.length_zip] at hi'
  exact ⟨i, by omega, by omega, by rw [List.getElem_zip]⟩

/-! ## the converter of a collapsed union -/

/-- `Union[A] is A` on the construction side: the converter of the collapsed member list converts like the union
converter over the members' converters -/
theorem c17u_mk_collapse {E : Ext} (env : Env) (mkCls : ClassEntry → Handlers → Except BuildErr Conv) (H : Handlers)
    (nm : List Ty) (cs' : List Conv) (h : exAll (mkTys env mkCls H nm) = .ok cs') :
    ∃ c, mkTy env mkCls H (c17_collapse nm) = .ok c ∧ ∀ v, tryC E c v = tryC E (.union cs') v := by
  have hu : mkTy env mkCls H (.union nm) = .ok (.union cs') := by rw [C11_build, h]; rfl
  match nm, h, hu with
  | [], _, hu => exact ⟨.union cs', hu, fun _ => rfl⟩
  | _ :: _ :: _, _, hu => exact ⟨.union cs', hu, fun _ => rfl⟩
  | [t], h, _ =>
    have h' : exAll [mkTy env mkCls H t] = .ok cs' := h
    obtain ⟨c, as, hc, has, rfl⟩ := c17u_exAll_cons_ok h'
    simp only [exAll] at has
    cases has
    exact ⟨c, hc, fun v => (C11_single_member c v).symm⟩

end PaneModel
