import PaneModel.Props.C03
import PaneModel.Model.Build
/-!
# Lemmas about the union loop (`firstOk`, `sumCol`, `unionInto`) and about `exAll`

Used by `Props/C11.lean` (and by C01 / C02 for the union clause).
-/
namespace PaneModel

variable {α β : Type}

/-! ## `firstOk` -/

/-- the loop over a concatenation: the first block decides unless every member of it interrupts -/
theorem firstOk_append (fs gs : List (α → Outcome β)) (v : α) :
    firstOk (fs ++ gs) v =
      match firstOk fs v with
      | .ok y => .ok y
      | .interrupt => firstOk gs v
      | .leak e => .leak e := by
  induction fs with
  | nil => rfl
  | cons f fs ih =>
    simp only [List.cons_append, firstOk]
    cases f v with
    | ok y => rfl
    | interrupt => exact ih
    | leak e => rfl

/-- **associativity**: a nested loop used as one member is the same as splicing its members in -/
theorem firstOk_flatten (fs gs hs : List (α → Outcome β)) (v : α) :
    firstOk (fs ++ [firstOk gs] ++ hs) v = firstOk (fs ++ gs ++ hs) v := by
  rw [List.append_assoc, List.append_assoc, firstOk_append fs, firstOk_append fs]
  cases firstOk fs v with
  | ok y => rfl
  | leak e => rfl
  | interrupt =>
    show firstOk ([firstOk gs] ++ hs) v = firstOk (gs ++ hs) v
    rw [firstOk_append gs]
    simp only [List.cons_append, List.nil_append, firstOk]
    cases firstOk gs v <;> rfl

/-- all members interrupt ⇒ the loop interrupts -/
theorem firstOk_all_interrupt {fs : List (α → Outcome β)} {v : α}
    (h : ∀ f ∈ fs, f v = .interrupt) : firstOk fs v = .interrupt := by
  induction fs with
  | nil => rfl
  | cons f fs ih =>
    simp only [firstOk, h f (List.mem_cons_self ..)]
    exact ih fun g hg => h g (List.mem_cons_of_mem _ hg)

/-- a value comes from the left-most accepting member; everything before it interrupted -/
theorem firstOk_ok_leftmost {fs : List (α → Outcome β)} {v : α} {x : β} (h : firstOk fs v = .ok x) :
    ∃ (i : Nat) (hi : i < fs.length), fs[i] v = .ok x ∧
      ∀ (j : Nat) (hj : j < i), (fs[j]'(Nat.lt_trans hj hi)) v = .interrupt := by
  induction fs with
  | nil => cases h
  | cons f fs ih =>
    simp only [firstOk] at h
    cases hf : f v with
    | ok y =>
      rw [hf] at h
      cases h
      exact ⟨0, by simp, by simpa using hf, fun j hj => absurd hj (Nat.not_lt_zero _)⟩
    | leak e => rw [hf] at h; cases h
    | interrupt =>
      rw [hf] at h
      obtain ⟨i, hi, h1, h2⟩ := ih h
      refine ⟨i + 1, by simpa using hi, by simpa using h1, ?_⟩
      intro j hj
      cases j with
      | zero => simpa using hf
      | succ j => simpa using h2 j (by omega)

/-- converse: a member accepts and all earlier ones interrupt ⇒ the loop returns that member's value -/
theorem firstOk_of_leftmost {fs : List (α → Outcome β)} {v : α} {x : β} :
    ∀ {i : Nat} (hi : i < fs.length), fs[i] v = .ok x →
      (∀ (j : Nat) (hj : j < i), (fs[j]'(Nat.lt_trans hj hi)) v = .interrupt) → firstOk fs v = .ok x := by
  induction fs with
  | nil => intro i hi; simp at hi
  | cons f fs ih =>
    intro i hi h1 h2
    cases i with
    | zero =>
      have : f v = .ok x := by simpa using h1
      simp only [firstOk, this]
    | succ i =>
      have h0 : f v = .interrupt := by simpa using h2 0 (by omega)
      simp only [firstOk, h0]
      refine ih (i := i) (by simpa using hi) (by simpa using h1) ?_
      intro j hj
      simpa using h2 (j + 1) (by omega)

/-- without leaks the loop interrupts only if every member does -/
theorem firstOk_interrupt_all {fs : List (α → Outcome β)} {v : α}
    (h : firstOk fs v = .interrupt) : ∀ f ∈ fs, f v = .interrupt := by
  induction fs with
  | nil => intro f hf; cases hf
  | cons f fs ih =>
    simp only [firstOk] at h
    cases hf : f v with
    | ok y => rw [hf] at h; cases h
    | leak e => rw [hf] at h; cases h
    | interrupt =>
      rw [hf] at h
      intro g hg
      rcases List.mem_cons.1 hg with rfl | hg
      · exact hf
      · exact ih h g hg

/-- no member leaks ⇒ the loop does not leak -/
theorem firstOk_no_leak {fs : List (α → Outcome β)} {v : α}
    (h : ∀ f ∈ fs, ∀ e, f v ≠ .leak e) : ∀ e, firstOk fs v ≠ .leak e := by
  induction fs with
  | nil => intro e h'; cases h'
  | cons f fs ih =>
    intro e
    simp only [firstOk]
    cases hf : f v with
    | ok y => intro h'; cases h'
    | leak e' => exact absurd hf (h f (List.mem_cons_self ..) e')
    | interrupt => exact ih (fun g hg => h g (List.mem_cons_of_mem _ hg)) e

/-- without leaks: the loop accepts iff some member accepts -/
theorem firstOk_isOk_iff {fs : List (α → Outcome β)} {v : α}
    (h : ∀ f ∈ fs, ∀ e, f v ≠ .leak e) :
    (∃ x, firstOk fs v = .ok x) ↔ ∃ f ∈ fs, ∃ x, f v = .ok x := by
  constructor
  · rintro ⟨x, hx⟩
    obtain ⟨i, hi, h1, _⟩ := firstOk_ok_leftmost hx
    exact ⟨fs[i], List.getElem_mem hi, x, h1⟩
  · rintro ⟨f, hf, x, hx⟩
    cases hr : firstOk fs v with
    | ok y => exact ⟨y, rfl⟩
    | leak e => exact absurd hr (firstOk_no_leak h e)
    | interrupt => rw [firstOk_interrupt_all hr f hf] at hx; cases hx

/-! ## The closure lists of the passes -/

variable {E : Ext}

theorem tryCs_append (E : Ext) : ∀ as bs : List Conv, tryCs E (as ++ bs) = tryCs E as ++ tryCs E bs
  | [], _ => by simp [tryCs]
  | a :: as, bs => by simp [tryCs, tryCs_append E as bs]

theorem colCs_length (E : Ext) : ∀ cs : List Conv, (colCs E cs).length = cs.length
  | [] => by simp [colCs]
  | c :: cs => by simp [colCs, colCs_length E cs]

theorem intoCs_length (E : Ext) (dyn) : ∀ cs : List Conv, (intoCs E dyn cs).length = cs.length
  | [] => by simp [intoCs]
  | c :: cs => by simp [intoCs, intoCs_length E dyn cs]

theorem tryCs_getElem (E : Ext) : ∀ (cs : List Conv) (i : Nat) (h : i < cs.length),
    (tryCs E cs)[i]'(by rw [tryCs_length]; exact h) = tryC E cs[i]
  | c :: cs, 0, _ => by simp [tryCs]
  | c :: cs, i + 1, h => by
    simp only [tryCs, List.getElem_cons_succ]
    exact tryCs_getElem E cs i (by simpa using h)

theorem colCs_getElem (E : Ext) : ∀ (cs : List Conv) (i : Nat) (h : i < cs.length),
    (colCs E cs)[i]'(by rw [colCs_length]; exact h) = colC E cs[i]
  | c :: cs, 0, _ => by simp [colCs]
  | c :: cs, i + 1, h => by
    simp only [colCs, List.getElem_cons_succ]
    exact colCs_getElem E cs i (by simpa using h)

theorem intoCs_getElem (E : Ext) (dyn) : ∀ (cs : List Conv) (i : Nat) (h : i < cs.length),
    (intoCs E dyn cs)[i]'(by rw [intoCs_length]; exact h) = intoC E dyn cs[i]
  | c :: cs, 0, _ => by simp [intoCs]
  | c :: cs, i + 1, h => by
    simp only [intoCs, List.getElem_cons_succ]
    exact intoCs_getElem E dyn cs i (by simpa using h)

theorem mem_tryCs {E : Ext} {f : Val → Outcome Val} : ∀ {cs : List Conv}, f ∈ tryCs E cs → ∃ c ∈ cs, f = tryC E c
  | [], h => by simp [tryCs] at h
  | c :: cs, h => by
    simp only [tryCs, List.mem_cons] at h
    rcases h with rfl | h
    · exact ⟨c, List.mem_cons_self .., rfl⟩
    · obtain ⟨c', hc', rfl⟩ := mem_tryCs h
      exact ⟨c', List.mem_cons_of_mem _ hc', rfl⟩

theorem tryC_mem_tryCs {E : Ext} : ∀ {cs : List Conv} {c : Conv}, c ∈ cs → tryC E c ∈ tryCs E cs
  | c' :: cs, c, h => by
    simp only [tryCs, List.mem_cons]
    rcases List.mem_cons.1 h with rfl | h
    · exact .inl rfl
    · exact .inr (tryC_mem_tryCs h)

/-! ## No leaks from well-formed converters -/

/-- members of a well-formed union are well-formed -/
theorem wfList_mem : ∀ {cs : List Conv}, wfList cs = true → ∀ c ∈ cs, c.wf = true
  | [], _, c, hc => nomatch hc
  | c' :: cs, h, c, hc => by
    simp only [wfList, Bool.and_eq_true] at h
    rcases List.mem_cons.1 hc with rfl | hc
    · exact h.1
    · exact wfList_mem h.2 c hc

/-- a well-formed converter never leaks from the fast pass (from C03) -/
theorem C03_try_no_leak (hG : GuardsCover = true) (hE : ExtOk E) (c : Conv) (hwf : c.wf = true) (v : Val)
    (e : Exc) : tryC E c v ≠ .leak e := by
  rcases C03_agree hG hE c hwf v with ⟨x, h, _⟩ | ⟨h, _⟩ <;> rw [h] <;> exact fun h' => nomatch h'

/-! ## `sumCol`: one child per member, each the member's own report -/

theorem sumCol_children {ts : List (Val → Outcome Val)} {cs : List (Val → Outcome (Option Err))}
    (h : GoodFs ts cs) {v : Val} (hr : firstOk ts v = .interrupt) :
    ∃ l : List Err, sumCol ts cs v = .ok (some l) ∧ l.length = cs.length ∧
      ∀ (i : Nat) (hi : i < cs.length) (hl : i < l.length), cs[i] v = .ok (some l[i]) := by
  induction h with
  | nil => exact ⟨[], rfl, rfl, fun i hi => absurd hi (Nat.not_lt_zero _)⟩
  | @cons t c ts cs ht _ ih =>
    rcases ht v with ⟨x, h1, _⟩ | ⟨h1, e, h2⟩
    · simp only [firstOk, h1] at hr; cases hr
    · simp only [firstOk, h1] at hr
      obtain ⟨l, hl1, hl2, hl3⟩ := ih hr
      refine ⟨e :: l, by simp only [sumCol, h1, h2, hl1], by simp [hl2], ?_⟩
      intro i hi hl
      cases i with
      | zero => simpa using h2
      | succ i => simpa using hl3 i (by simpa using hi) (by simpa using hl)

/-! ## `unionInto` -/

/-- the serialiser loop: first accepting member's serialiser, or the untyped fallback -/
theorem unionInto_char {dyn : Val → Except Exc Val} :
    ∀ {ts : List (Val → Outcome Val)} {ss : List (Val → Except Exc Val)} {v : Val},
      ts.length = ss.length → (∀ t ∈ ts, ∀ e, t v ≠ .leak e) →
      (∃ (j : Nat) (hj : j < ts.length) (hs : j < ss.length) (y : Val), ts[j] v = .ok y ∧
          (∀ (k : Nat) (hk : k < j), (ts[k]'(Nat.lt_trans hk hj)) v = .interrupt) ∧
          unionInto dyn ts ss v = ss[j] v) ∨
      ((∀ t ∈ ts, t v = .interrupt) ∧ unionInto dyn ts ss v = dyn v)
  | [], [], v, _, _ => .inr ⟨fun t ht => (nomatch ht), rfl⟩
  | [], _ :: _, _, hl, _ => by simp at hl
  | _ :: _, [], _, hl, _ => by simp at hl
  | t :: ts, s :: ss, v, hl, hnl => by
    cases ht : t v with
    | ok y =>
      exact .inl ⟨0, by simp, by simp, y, by simpa using ht,
        fun k hk => absurd hk (Nat.not_lt_zero _), by simp only [unionInto, ht]; rfl⟩
    | leak e => exact absurd ht (hnl t (List.mem_cons_self ..) e)
    | interrupt =>
      have hu : unionInto dyn (t :: ts) (s :: ss) v = unionInto dyn ts ss v := by
        simp only [unionInto, ht]
      rcases unionInto_char (dyn := dyn) (ts := ts) (ss := ss) (v := v) (by simpa using hl)
          (fun t' ht' => hnl t' (List.mem_cons_of_mem _ ht')) with ⟨j, hj, hs, y, h1, h2, h3⟩ | ⟨h1, h2⟩
      · refine .inl ⟨j + 1, by simpa using hj, by simpa using hs, y, by simpa using h1, ?_, ?_⟩
        · intro k hk
          cases k with
          | zero => simpa using ht
          | succ k => simpa using h2 k (by omega)
        · rw [hu, h3]; simp
      · refine .inr ⟨?_, by rw [hu, h2]⟩
        intro t' ht'
        rcases List.mem_cons.1 ht' with rfl | ht'
        · exact ht
        · exact h1 t' ht'

/-! ## `exAll`: all-or-nothing, order preserving -/

theorem exAll_ok {ε γ : Type} : ∀ {xs : List (Except ε γ)} {ys : List γ}, exAll xs = .ok ys →
    ys.length = xs.length ∧ ∀ (i : Nat) (hx : i < xs.length) (hy : i < ys.length), xs[i] = .ok ys[i]
  | [], ys, h => by
    simp only [exAll] at h; cases h
    exact ⟨rfl, fun i hi => absurd hi (Nat.not_lt_zero _)⟩
  | x :: xs, ys, h => by
    simp only [exAll] at h
    split at h
    · rename_i a
      split at h
      · rename_i as has
        cases h
        obtain ⟨h1, h2⟩ := exAll_ok has
        refine ⟨by simp [h1], ?_⟩
        intro i hx hy
        cases i with
        | zero => simp
        | succ i => simpa using h2 i (by simpa using hx) (by simpa using hy)
      · cases h
    · cases h

theorem exAll_of_all_ok {ε γ : Type} : ∀ {xs : List (Except ε γ)}, (∀ x ∈ xs, ∃ a, x = .ok a) →
    ∃ ys, exAll xs = .ok ys
  | [], _ => ⟨[], rfl⟩
  | x :: xs, h => by
    obtain ⟨a, rfl⟩ := h x (List.mem_cons_self ..)
    obtain ⟨ys, hys⟩ := exAll_of_all_ok (xs := xs) fun x hx => h x (List.mem_cons_of_mem _ hx)
    exact ⟨a :: ys, by simp only [exAll, hys]⟩

theorem mkTys_length (env mkCls H) : ∀ ts : List Ty, (mkTys env mkCls H ts).length = ts.length
  | [] => rfl
  | t :: ts => by
    show (mkTy env mkCls H t :: mkTys env mkCls H ts).length = _
    simp [mkTys_length env mkCls H ts]

theorem mkTys_getElem (env mkCls H) : ∀ (ts : List Ty) (i : Nat) (h : i < ts.length),
    (mkTys env mkCls H ts)[i]'(by rw [mkTys_length]; exact h) = mkTy env mkCls H ts[i]
  | t :: ts, 0, _ => rfl
  | t :: ts, i + 1, h => by
    show (mkTy env mkCls H t :: mkTys env mkCls H ts)[i + 1]'_ = _
    simp only [List.getElem_cons_succ]
    exact mkTys_getElem env mkCls H ts i (by simpa using h)

theorem mem_mkTys {env mkCls H} : ∀ {ts : List Ty} {x}, x ∈ mkTys env mkCls H ts → ∃ t ∈ ts, x = mkTy env mkCls H t
  | [], x, h => by cases h
  | t :: ts, x, h => by
    have h' : x ∈ mkTy env mkCls H t :: mkTys env mkCls H ts := h
    rcases List.mem_cons.1 h' with rfl | h'
    · exact ⟨t, List.mem_cons_self .., rfl⟩
    · obtain ⟨t', ht', rfl⟩ := mem_mkTys h'
      exact ⟨t', List.mem_cons_of_mem _ ht', rfl⟩

end PaneModel
