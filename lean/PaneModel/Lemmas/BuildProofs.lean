import PaneModel.Lemmas.Union
import PaneModel.Spec.Documented
/-!
# Lemmas about `mkTy` (`make_converter`) for `Props/C01.lean`

`mkTy` is too large for the equation compiler's `simp` lemmas, so each clause needed is restated and
closed by `rfl` (with smart unfolding off: the clauses start with a `match` on something opaque,
which smart unfolding refuses to expose).
-/
namespace PaneModel

variable {env : Env} {mkCls : ClassEntry → Handlers → Except BuildErr Conv} {H : Handlers}

section Unfold
set_option smartUnfolding false

theorem mkTy_any : mkTy env mkCls H .any = .ok .any := rfl

theorem mkTy_literal (vs) : mkTy env mkCls H (.literal vs) = .ok (.literal vs) := rfl

theorem mkTy_structLit (names ts) :
    mkTy env mkCls H (.structLit names ts) = (exAll (mkTys env mkCls H ts)).map fun cs => .struct names cs := rfl

theorem mkTy_tupleLit (ts) : mkTy env mkCls H (.tupleLit ts) = (exAll (mkTys env mkCls H ts)).map .tuple := rfl

theorem mkTy_union (ts) : mkTy env mkCls H (.union ts) = (exAll (mkTys env mkCls H ts)).map .union := rfl

theorem mkTy_tupleFixed (ts) :
    mkTy env mkCls H (.tupleFixed ts) =
      match H.answer "tuple" ts.length with
      | some id => .ok (.custom id)
      | none =>
        match (env.registered.findSome? fun h => h.answer "tuple" ts.length) with
        | some id => .ok (.custom id)
        | none => (exAll (mkTys env mkCls H ts)).map .tuple := rfl

theorem mkTy_scalar (name) :
    mkTy env mkCls H (.scalar name) =
      match H.answer name 0 with
      | some id => .ok (.custom id)
      | none =>
        match Facts.basicTable.find? (·.1 == name) with
        | some (_, row) => .ok row
        | none =>
          match (env.registered.findSome? fun h => h.answer name 0) with
          | some id => .ok (.custom id)
          | none =>
            if name.startsWith "Path:" then
              if name == "Path:PathLike" then .ok (.scalar "Path:PurePath" [.str, .pathLike] .str "a path" "paths")
              else .ok (.scalar name [.str, .pathLike] .str "a path" "paths")
            else .error (.typeError ("No converter for type '" ++ name ++ "'")) := rfl

theorem mkTy_seq (origin arg) :
    mkTy env mkCls H (.seq origin arg) =
      match H.answer origin (if arg.isSome then 1 else 0) with
      | some id => .ok (.custom id)
      | none =>
        match (env.registered.findSome? fun h => h.answer origin (if arg.isSome then 1 else 0)) with
        | some id => .ok (.custom id)
        | none =>
        match seqKind origin with
        | none => .error (.typeError ("No converter for abstract type '" ++ origin ++ "'"))
        | some kind =>
          match arg with
          | some a => (mkTy env mkCls H a).map (.seq kind)
          | none => .ok (.seq kind .any) := by
  cases arg <;> rfl

theorem mkTy_valueOrList (arg) :
    mkTy env mkCls H (.valueOrList arg) =
      match H.answer "ValueOrList" (if arg.isSome then 1 else 0) with
      | some id => .ok (.custom id)
      | none =>
        match arg with
        | some a => (mkTy env mkCls H a).map .vol
        | none => .ok (.vol .any) := by
  cases arg <;> rfl

theorem mkTy_mapping (origin args) :
    mkTy env mkCls H (.mapping origin args) =
      match H.answer origin args.length with
      | some id => .ok (.custom id)
      | none =>
        match (env.registered.findSome? fun h => h.answer origin args.length) with
        | some id => .ok (.custom id)
        | none =>
        match seqKind origin with
        | none => .error (.typeError ("No converter for abstract type '" ++ origin ++ "'"))
        | some kind =>
          if kind == "Counter" then
            match args with
            | a :: _ =>
              match mkTy env mkCls H a, mkTy.mkInner H (.scalar "int") with
              | .ok k, .ok v => .ok (.dict kind k v)
              | .error e, _ => .error e
              | _, .error e => .error e
            | [] => (mkTy.mkInner H (.scalar "int")).map (.dict kind .any)
          else
            match args with
            | [] => .ok (.dict kind .any .any)
            | [a] => (mkTy env mkCls H a).map fun k => .dict kind k .any
            | a :: b :: _ =>
              match mkTy env mkCls H a, mkTy env mkCls H b with
              | .ok k, .ok v => .ok (.dict kind k v)
              | .error e, _ => .error e
              | _, .error e => .error e := by
  cases args with
  | nil => rfl
  | cons a as => cases as <;> rfl

theorem mkInner_scalar (name) :
    mkTy.mkInner H (.scalar name) =
      match H.answer name 0 with
      | some id => .ok (.custom id)
      | none =>
        match Facts.basicTable.find? (·.1 == name) with
        | some (_, row) => .ok row
        | none => .error (.typeError ("No converter for type '" ++ name ++ "'")) := rfl

end Unfold

/-! ### the three container clauses when the registered handlers are silent / when one answers
(rule 5 of `make_converter`: the registered handlers are asked before every structural built-in) -/

theorem mkTy_tupleFixed_silent (ts : List Ty) (h : H.answer "tuple" ts.length = none)
    (r : env.registered.findSome? (·.answer "tuple" ts.length) = none) :
    mkTy env mkCls H (.tupleFixed ts) = (exAll (mkTys env mkCls H ts)).map .tuple := by
  rw [mkTy_tupleFixed, h, r]

theorem mkTy_seq_silent (origin : String) (arg : Option Ty)
    (h : H.answer origin (if arg.isSome then 1 else 0) = none)
    (r : env.registered.findSome? (·.answer origin (if arg.isSome then 1 else 0)) = none) :
    mkTy env mkCls H (.seq origin arg) =
      match seqKind origin with
      | none => .error (.typeError ("No converter for abstract type '" ++ origin ++ "'"))
      | some kind =>
        match arg with
        | some a => (mkTy env mkCls H a).map (.seq kind)
        | none => .ok (.seq kind .any) := by
  rw [mkTy_seq, h, r]

theorem mkTy_mapping_silent (origin : String) (args : List Ty) (h : H.answer origin args.length = none)
    (r : env.registered.findSome? (·.answer origin args.length) = none) :
    mkTy env mkCls H (.mapping origin args) =
      match seqKind origin with
      | none => .error (.typeError ("No converter for abstract type '" ++ origin ++ "'"))
      | some kind =>
        if kind == "Counter" then
          match args with
          | a :: _ =>
            match mkTy env mkCls H a, mkTy.mkInner H (.scalar "int") with
            | .ok k, .ok v => .ok (.dict kind k v)
            | .error e, _ => .error e
            | _, .error e => .error e
          | [] => (mkTy.mkInner H (.scalar "int")).map (.dict kind .any)
        else
          match args with
          | [] => .ok (.dict kind .any .any)
          | [a] => (mkTy env mkCls H a).map fun k => .dict kind k .any
          | a :: b :: _ =>
            match mkTy env mkCls H a, mkTy env mkCls H b with
            | .ok k, .ok v => .ok (.dict kind k v)
            | .error e, _ => .error e
            | _, .error e => .error e := by
  rw [mkTy_mapping, h, r]

theorem mkTy_tupleFixed_registered (ts : List Ty) {id : String} (h : H.answer "tuple" ts.length = none)
    (r : env.registered.findSome? (·.answer "tuple" ts.length) = some id) :
    mkTy env mkCls H (.tupleFixed ts) = .ok (.custom id) := by
  rw [mkTy_tupleFixed, h, r]

theorem mkTy_seq_registered (origin : String) (arg : Option Ty) {id : String}
    (h : H.answer origin (if arg.isSome then 1 else 0) = none)
    (r : env.registered.findSome? (·.answer origin (if arg.isSome then 1 else 0)) = some id) :
    mkTy env mkCls H (.seq origin arg) = .ok (.custom id) := by
  rw [mkTy_seq, h, r]

theorem mkTy_mapping_registered (origin : String) (args : List Ty) {id : String}
    (h : H.answer origin args.length = none)
    (r : env.registered.findSome? (·.answer origin args.length) = some id) :
    mkTy env mkCls H (.mapping origin args) = .ok (.custom id) := by
  rw [mkTy_mapping, h, r]

/-- spelling: two collection origins that `_ABSTRACT_MAPPING` sends to the same concrete type build the
same converter, provided no handler claims either spelling -/
theorem mkTy_seq_spelling {o₁ o₂ k : String} (hk₁ : seqKind o₁ = some k) (hk₂ : seqKind o₂ = some k)
    (arg : Option Ty)
    (h₁ : H.answer o₁ (if arg.isSome then 1 else 0) = none)
    (h₂ : H.answer o₂ (if arg.isSome then 1 else 0) = none)
    (r₁ : env.registered.findSome? (·.answer o₁ (if arg.isSome then 1 else 0)) = none)
    (r₂ : env.registered.findSome? (·.answer o₂ (if arg.isSome then 1 else 0)) = none) :
    mkTy env mkCls H (.seq o₁ arg) = mkTy env mkCls H (.seq o₂ arg) := by
  rw [mkTy_seq, mkTy_seq, h₁, h₂, r₁, r₂, hk₁, hk₂]

theorem mkTy_mapping_spelling {o₁ o₂ k : String} (hk₁ : seqKind o₁ = some k) (hk₂ : seqKind o₂ = some k)
    (args : List Ty) (h₁ : H.answer o₁ args.length = none) (h₂ : H.answer o₂ args.length = none)
    (r₁ : env.registered.findSome? (·.answer o₁ args.length) = none)
    (r₂ : env.registered.findSome? (·.answer o₂ args.length) = none) :
    mkTy env mkCls H (.mapping o₁ args) = mkTy env mkCls H (.mapping o₂ args) := by
  rw [mkTy_mapping, mkTy_mapping, h₁, h₂, r₁, r₂, hk₁, hk₂]

/-! ## Building succeeds on the documented fragment -/

theorem exAll_mkTys_ok {ts : List Ty} (h : ∀ t ∈ ts, ∃ c, mkTy env mkCls H t = .ok c) :
    ∃ cs, exAll (mkTys env mkCls H ts) = .ok cs :=
  exAll_of_all_ok (xs := mkTys env mkCls H ts) (by
    intro x hx
    obtain ⟨t, ht, rfl⟩ := mem_mkTys hx
    exact h t ht)

theorem mkInner_int_ok (hH : NoHandlers H)
    (hint : (Facts.basicTable.find? (·.1 == "int")).isSome = true) :
    ∃ c, mkTy.mkInner H (.scalar "int") = .ok c := by
  rw [mkInner_scalar, hH]
  cases hf : Facts.basicTable.find? (·.1 == "int") with
  | none => rw [hf] at hint; cases hint
  | some p => exact ⟨p.2, rfl⟩

theorem build_total (hH : NoHandlers H)
    (hint : (Facts.basicTable.find? (·.1 == "int")).isSome = true) {t : Ty} (hd : Documented t) :
    ∃ c, mkTy env mkCls H t = .ok c := by
  induction hd with
  | any => exact ⟨_, rfl⟩
  | scalar n hn =>
    rw [mkTy_scalar, hH]
    cases hf : Facts.basicTable.find? (·.1 == n) with
    | none => rw [hf] at hn; cases hn
    | some p => exact ⟨p.2, rfl⟩
  | seqBare o ho =>
    rcases hr : env.registered.findSome? (·.answer o (if (none : Option Ty).isSome then 1 else 0)) with _ | id
    case some => exact ⟨_, mkTy_seq_registered o none (hH _ _) hr⟩
    rw [mkTy_seq_silent o none (hH _ _) hr]
    cases hk : seqKind o with
    | none => rw [hk] at ho; cases ho
    | some k => exact ⟨_, rfl⟩
  | seq o a ho _ ih =>
    obtain ⟨c, hc⟩ := ih
    rcases hr : env.registered.findSome? (·.answer o (if (some a).isSome then 1 else 0)) with _ | id
    case some => exact ⟨_, mkTy_seq_registered o (some a) (hH _ _) hr⟩
    rw [mkTy_seq_silent o (some a) (hH _ _) hr]
    cases hk : seqKind o with
    | none => rw [hk] at ho; cases ho
    | some k => exact ⟨.seq k c, by simp only [hc]; rfl⟩
  | valueOrListBare => rw [mkTy_valueOrList, hH]; exact ⟨_, rfl⟩
  | valueOrList a _ ih =>
    obtain ⟨c, hc⟩ := ih
    rw [mkTy_valueOrList, hH]
    exact ⟨.vol c, by simp only [hc]; rfl⟩
  | tupleFixed ts _ ih =>
    obtain ⟨cs, hcs⟩ := exAll_mkTys_ok ih
    rcases hr : env.registered.findSome? (·.answer "tuple" ts.length) with _ | id
    case some => exact ⟨_, mkTy_tupleFixed_registered ts (hH _ _) hr⟩
    exact ⟨.tuple cs, by rw [mkTy_tupleFixed_silent ts (hH _ _) hr, hcs]; rfl⟩
  | union ts _ ih =>
    obtain ⟨cs, hcs⟩ := exAll_mkTys_ok ih
    exact ⟨.union cs, by rw [mkTy_union, hcs]; rfl⟩
  | literal vs => exact ⟨_, rfl⟩
  | structLit names ts _ ih =>
    obtain ⟨cs, hcs⟩ := exAll_mkTys_ok ih
    exact ⟨.struct names cs, by rw [mkTy_structLit, hcs]; rfl⟩
  | tupleLit ts _ ih =>
    obtain ⟨cs, hcs⟩ := exAll_mkTys_ok ih
    exact ⟨.tuple cs, by rw [mkTy_tupleLit, hcs]; rfl⟩
  | mapping o args ho _ ih =>
    rcases hr : env.registered.findSome? (·.answer o args.length) with _ | id
    case some => exact ⟨_, mkTy_mapping_registered o args (hH _ _) hr⟩
    rw [mkTy_mapping_silent o args (hH _ _) hr]
    cases hk : seqKind o with
    | none => rw [hk] at ho; cases ho
    | some k =>
      obtain ⟨ci, hci⟩ := mkInner_int_ok hH hint
      simp only []
      split
      · cases args with
        | nil => exact ⟨_, by simp only [hci]; rfl⟩
        | cons a as =>
          obtain ⟨ca, hca⟩ := ih a (List.mem_cons_self ..)
          exact ⟨.dict k ca ci, by simp only [hca, hci]⟩
      · cases args with
        | nil => exact ⟨_, rfl⟩
        | cons a as =>
          obtain ⟨ca, hca⟩ := ih a (List.mem_cons_self ..)
          cases as with
          | nil => exact ⟨_, by simp only [hca]; rfl⟩
          | cons b bs =>
            obtain ⟨cb, hcb⟩ := ih b (List.mem_cons_of_mem _ (List.mem_cons_self ..))
            exact ⟨.dict k ca cb, by simp only [hca, hcb]⟩

/-! ## … and on the core fragment the converter built is one `Denotes` speaks about -/

theorem inFragmentL_iff : ∀ {cs : List Conv}, InFragmentL cs = true ↔ ∀ c ∈ cs, InFragment c = true
  | [] => by simp [InFragmentL]
  | c :: cs => by simp [InFragmentL, inFragmentL_iff (cs := cs)]

theorem exAll_mkTys_ok_P {P : Conv → Prop} {ts : List Ty}
    (h : ∀ t ∈ ts, ∃ c, mkTy env mkCls H t = .ok c ∧ P c) :
    ∃ cs, exAll (mkTys env mkCls H ts) = .ok cs ∧ cs.length = ts.length ∧ ∀ c ∈ cs, P c := by
  obtain ⟨cs, hcs⟩ := exAll_mkTys_ok (env := env) (mkCls := mkCls) (H := H) (ts := ts)
    (fun t ht => let ⟨c, hc, _⟩ := h t ht; ⟨c, hc⟩)
  obtain ⟨hl, hget⟩ := exAll_ok hcs
  refine ⟨cs, hcs, by rw [hl, mkTys_length], ?_⟩
  intro c hc
  obtain ⟨i, hi, rfl⟩ := List.getElem_of_mem hc
  have hi' : i < ts.length := by rw [hl, mkTys_length] at hi; exact hi
  have := hget i (by rw [mkTys_length]; exact hi') hi
  rw [mkTys_getElem env mkCls H ts i hi'] at this
  obtain ⟨c', hc', hP⟩ := h ts[i] (List.getElem_mem hi')
  rw [hc'] at this
  cases this
  exact hP

theorem build_fragment (hH : NoHandlers H) (hR : RegSilentOnContainers env)
    (hint : ((Facts.basicTable.find? (·.1 == "int")).any fun p => InFragment p.2) = true)
    {t : Ty} (hd : DocumentedCore t) : ∃ c, mkTy env mkCls H t = .ok c ∧ InFragment c = true := by
  have hintRow : ∃ ci, mkTy.mkInner H (.scalar "int") = .ok ci ∧ InFragment ci = true := by
    rw [mkInner_scalar, hH]
    cases hf : Facts.basicTable.find? (·.1 == "int") with
    | none => rw [hf] at hint; cases hint
    | some p => rw [hf] at hint; exact ⟨p.2, rfl, by simpa using hint⟩
  induction hd with
  | any => exact ⟨_, rfl, rfl⟩
  | scalar n hn =>
    rw [mkTy_scalar, hH]
    cases hf : Facts.basicTable.find? (·.1 == n) with
    | none => rw [hf] at hn; cases hn
    | some p => rw [hf] at hn; exact ⟨p.2, rfl, by simpa using hn⟩
  | seqBare o ho =>
    rw [mkTy_seq_silent o none (hH _ _) (hR _ _ (.inr ho))]
    cases hk : seqKind o with
    | none => rw [hk] at ho; cases ho
    | some k => exact ⟨_, rfl, rfl⟩
  | seq o a ho _ ih =>
    obtain ⟨c, hc, hF⟩ := ih
    rw [mkTy_seq_silent o (some a) (hH _ _) (hR _ _ (.inr ho))]
    cases hk : seqKind o with
    | none => rw [hk] at ho; cases ho
    | some k => exact ⟨.seq k c, by simp only [hc]; rfl, by simpa only [InFragment] using hF⟩
  | valueOrListBare => rw [mkTy_valueOrList, hH]; exact ⟨_, rfl, rfl⟩
  | valueOrList a _ ih =>
    obtain ⟨c, hc, hF⟩ := ih
    rw [mkTy_valueOrList, hH]
    exact ⟨.vol c, by simp only [hc]; rfl, by simpa only [InFragment] using hF⟩
  | tupleFixed ts _ ih =>
    obtain ⟨cs, hcs, _, hP⟩ := exAll_mkTys_ok_P ih
    exact ⟨.tuple cs, by rw [mkTy_tupleFixed_silent ts (hH _ _) (hR _ _ (.inl rfl)), hcs]; rfl, by simpa only [InFragment] using inFragmentL_iff.2 hP⟩
  | union ts _ ih =>
    obtain ⟨cs, hcs, _, hP⟩ := exAll_mkTys_ok_P ih
    exact ⟨.union cs, by rw [mkTy_union, hcs]; rfl, by simpa only [InFragment] using inFragmentL_iff.2 hP⟩
  | literal vs => exact ⟨_, rfl, rfl⟩
  | structLit names ts hlen _ ih =>
    obtain ⟨cs, hcs, hl, hP⟩ := exAll_mkTys_ok_P ih
    refine ⟨.struct names cs, by rw [mkTy_structLit, hcs]; rfl, ?_⟩
    simp only [InFragment, Bool.and_eq_true, beq_iff_eq]
    exact ⟨inFragmentL_iff.2 hP, by rw [hlen, hl]⟩
  | tupleLit ts _ ih =>
    obtain ⟨cs, hcs, _, hP⟩ := exAll_mkTys_ok_P ih
    exact ⟨.tuple cs, by rw [mkTy_tupleLit, hcs]; rfl, by simpa only [InFragment] using inFragmentL_iff.2 hP⟩
  | mapping o args ho _ ih =>
    rw [mkTy_mapping_silent o args (hH _ _) (hR _ _ (.inr ho))]
    cases hk : seqKind o with
    | none => rw [hk] at ho; cases ho
    | some k =>
      obtain ⟨ci, hci, hFi⟩ := hintRow
      simp only []
      split
      · cases args with
        | nil => exact ⟨.dict k .any ci, by simp only [hci]; rfl, by simp only [InFragment, hFi]; rfl⟩
        | cons a as =>
          obtain ⟨ca, hca, hFa⟩ := ih a (List.mem_cons_self ..)
          exact ⟨.dict k ca ci, by simp only [hca, hci], by simp only [InFragment, hFa, hFi]; rfl⟩
      · cases args with
        | nil => exact ⟨_, rfl, rfl⟩
        | cons a as =>
          obtain ⟨ca, hca, hFa⟩ := ih a (List.mem_cons_self ..)
          cases as with
          | nil => exact ⟨.dict k ca .any, by simp only [hca]; rfl, by simp only [InFragment, hFa]; rfl⟩
          | cons b bs =>
            obtain ⟨cb, hcb, hFb⟩ := ih b (List.mem_cons_of_mem _ (List.mem_cons_self ..))
            exact ⟨.dict k ca cb, by simp only [hca, hcb], by simp only [InFragment, hFa, hFb]; rfl⟩

end PaneModel
