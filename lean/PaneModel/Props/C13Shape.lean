import PaneModel.Model.Broadcast
import PaneModel.Generated.Facts
/-!
# C13 (shape conditions) — `shape(s)` and `broadcastable(s)`
-/
namespace PaneModel.Broadcast

/-! ## `mapOpt` -/

theorem bc_mapOpt_congr {α β : Type} {f g : α → Option β} {l : List α}
    (h : ∀ x ∈ l, f x = g x) : mapOpt f l = mapOpt g l := by
  induction l with
  | nil => rfl
  | cons a l ih =>
    simp only [mapOpt]
    rw [h a (by simp), ih (fun x hx => h x (by simp [hx]))]

theorem bc_mapOpt_map {α β γ : Type} (f : β → Option γ) (g : α → β) (l : List α) :
    mapOpt f (l.map g) = mapOpt (fun x => f (g x)) l := by
  induction l with
  | nil => rfl
  | cons a l ih => simp only [List.map_cons, mapOpt, ih]

theorem bc_mapOpt_append {α β : Type} (f : α → Option β) (l₁ l₂ : List α) :
    mapOpt f (l₁ ++ l₂) =
      (mapOpt f l₁).bind fun xs => (mapOpt f l₂).map fun ys => xs ++ ys := by
  induction l₁ with
  | nil => simp [mapOpt]
  | cons a l ih =>
    simp only [List.cons_append, mapOpt, ih]
    cases f a <;> cases mapOpt f l <;> cases mapOpt f l₂ <;> simp

theorem bc_mapOpt_reverse {α β : Type} (f : α → Option β) (l : List α) :
    mapOpt f l.reverse = (mapOpt f l).map List.reverse := by
  induction l with
  | nil => rfl
  | cons a l ih =>
    simp only [List.reverse_cons, bc_mapOpt_append, ih, mapOpt]
    cases f a <;> cases mapOpt f l <;> simp

theorem bc_mapOpt_some {α β : Type} {f : α → Option β} {g : α → β} {l : List α}
    (h : ∀ x ∈ l, f x = some (g x)) : mapOpt f l = some (l.map g) := by
  induction l with
  | nil => rfl
  | cons a l ih =>
    simp only [mapOpt]
    rw [h a (by simp), ih (fun x hx => h x (by simp [hx]))]
    simp

/-! ## the axis rule -/

theorem bc_filter_mem {lens : List Nat} {m : Nat} {rest : List Nat}
    (hF : lens.filter (fun l => l != 1) = m :: rest) (l : Nat) :
    (l = m ∨ l ∈ rest) ↔ (l ∈ lens ∧ l ≠ 1) := by
  have : l ∈ lens.filter (fun l => l != 1) ↔ (l ∈ lens ∧ l ≠ 1) := by simp
  rw [hF] at this
  simpa using this

theorem C13_axis_spec (lens : List Nat) (n : Nat) :
    axis lens = some n ↔ (∀ l ∈ lens, l = 1 ∨ l = n) ∧ (n = 1 ∨ n ∈ lens) := by
  unfold axis
  split
  · rename_i hF
    have h1 : ∀ l ∈ lens, l = 1 := by simpa [List.filter_eq_nil_iff] using hF
    constructor
    · intro h
      have : n = 1 := by simpa using h.symm
      subst this
      exact ⟨fun l hl => Or.inl (h1 l hl), Or.inl rfl⟩
    · rintro ⟨_, h | h⟩
      · rw [h]
      · rw [h1 n h]
  · rename_i m rest hF
    have hm := bc_filter_mem hF
    have hm_mem : m ∈ lens ∧ m ≠ 1 := (hm m).1 (Or.inl rfl)
    split
    · rename_i hall
      have hall' : ∀ r ∈ rest, r = m := by simpa using hall
      constructor
      · intro h
        have : m = n := by simpa using h
        subst this
        refine ⟨fun l hl => ?_, Or.inr hm_mem.1⟩
        by_cases h1 : l = 1
        · exact Or.inl h1
        · rcases (hm l).2 ⟨hl, h1⟩ with h | h
          · exact Or.inr h
          · exact Or.inr (hall' l h)
      · rintro ⟨h, _⟩
        rcases h m hm_mem.1 with h | h
        · exact absurd h hm_mem.2
        · rw [h]
    · rename_i hall
      have : ∃ r ∈ rest, r ≠ m := by simpa using hall
      obtain ⟨r, hr, hrm⟩ := this
      have hr_mem : r ∈ lens ∧ r ≠ 1 := (hm r).1 (Or.inr hr)
      constructor
      · intro h; exact absurd h (by simp)
      · rintro ⟨h, _⟩
        exfalso
        rcases h m hm_mem.1 with h1 | h1
        · exact hm_mem.2 h1
        · rcases h r hr_mem.1 with h2 | h2
          · exact hr_mem.2 h2
          · exact hrm (h2.trans h1.symm)

theorem C13_axis_none (lens : List Nat) :
    axis lens = none ↔ ∃ a ∈ lens, ∃ b ∈ lens, a ≠ 1 ∧ b ≠ 1 ∧ a ≠ b := by
  constructor
  · intro h
    unfold axis at h
    split at h
    · exact absurd h (by simp)
    · rename_i m rest hF
      have hm := bc_filter_mem hF
      split at h
      · exact absurd h (by simp)
      · rename_i hall
        have : ∃ r ∈ rest, r ≠ m := by simpa using hall
        obtain ⟨r, hr, hrm⟩ := this
        have hm_mem := (hm m).1 (Or.inl rfl)
        have hr_mem := (hm r).1 (Or.inr hr)
        exact ⟨r, hr_mem.1, m, hm_mem.1, hr_mem.2, hm_mem.2, hrm⟩
  · rintro ⟨a, ha, b, hb, ha1, hb1, hab⟩
    cases h : axis lens with
    | none => rfl
    | some n =>
      exfalso
      have hs := (C13_axis_spec lens n).1 h
      rcases hs.1 a ha with h1 | h1
      · exact ha1 h1
      · rcases hs.1 b hb with h2 | h2
        · exact hb1 h2
        · exact hab (h1.trans h2.symm)

/-- the axis rule only looks at which lengths occur -/
theorem bc_axis_congr {l₁ l₂ : List Nat} (h : ∀ x, x ∈ l₁ ↔ x ∈ l₂) : axis l₁ = axis l₂ := by
  apply Option.ext
  intro n
  rw [C13_axis_spec, C13_axis_spec]
  simp only [h]

/-! ## the repaired fallback is the textbook rule -/

theorem bc_mem_dedup (l : List Nat) (x : Nat) : x ∈ dedup l ↔ x ∈ l := by
  induction l generalizing x with
  | nil => simp [dedup]
  | cons a l ih =>
    simp only [dedup]
    split
    · rename_i hc
      have : a ∈ l := (ih a).1 (by simpa using hc)
      simp only [List.mem_cons, ih]
      constructor
      · exact Or.inr
      · rintro (h | h)
        · exact h ▸ this
        · exact h
    · simp only [List.mem_cons, ih]

theorem bc_dedup_short {l : List Nat} (h : ∀ a ∈ l, ∀ b ∈ l, a = b) : (dedup l).length ≤ 1 := by
  induction l with
  | nil => simp [dedup]
  | cons a l ih =>
    have ih' := ih (fun x hx y hy => h x (by simp [hx]) y (by simp [hy]))
    simp only [dedup]
    split
    · exact ih'
    · rename_i hc
      match hd : dedup l, ih' with
      | [], _ => simp
      | [x], _ =>
        exfalso
        have hx : x ∈ l := (bc_mem_dedup l x).1 (by simp [hd])
        have : x = a := h x (by simp [hx]) a (by simp)
        apply hc
        simp [hd, this]
      | _ :: _ :: _, h2 => simp at h2

theorem bc_dedup_long {l : List Nat} {a b : Nat} (ha : a ∈ l) (hb : b ∈ l) (hab : a ≠ b) :
    1 < (dedup l).length := by
  have ha' := (bc_mem_dedup l a).2 ha
  have hb' := (bc_mem_dedup l b).2 hb
  match hd : dedup l with
  | [] => simp [hd] at ha'
  | [x] =>
    simp only [hd, List.mem_singleton] at ha' hb'
    exact absurd (ha'.trans hb'.symm) hab
  | _ :: _ :: _ => simp

theorem C13_fallback_new_eq (lens : List Nat) : fallbackAxisNew lens = axis lens := by
  unfold fallbackAxisNew axis
  split
  · rename_i hF
    simp [hF, dedup]
  · rename_i m rest hF
    rw [hF]
    split
    · rename_i hall
      have hall' : ∀ r ∈ rest, r = m := by simpa using hall
      have hm : ∀ x ∈ m :: rest, x = m := by
        intro x hx
        rcases List.mem_cons.1 hx with h | h
        · exact h
        · exact hall' x h
      have hshort : (dedup (m :: rest)).length ≤ 1 :=
        bc_dedup_short (fun a ha b hb => (hm a ha).trans (hm b hb).symm)
      have hmem : m ∈ dedup (m :: rest) := (bc_mem_dedup _ m).2 (by simp)
      match hd : dedup (m :: rest), hshort, hmem with
      | [], _, h3 => simp at h3
      | [x], _, h3 =>
        have : m = x := by simpa using h3
        simp [this]
      | _ :: _ :: _, h2, _ => simp at h2
    · rename_i hall
      have : ∃ r ∈ rest, r ≠ m := by simpa using hall
      obtain ⟨r, hr, hrm⟩ := this
      have : 1 < (dedup (m :: rest)).length :=
        bc_dedup_long (a := r) (b := m) (by simp [hr]) (by simp) hrm
      simp [this]

theorem C13_fallback_eq (shapes : List (List Nat)) :
    fallback "nonUnitEqual" true shapes = broadcast shapes := by
  have hr : fallbackRule "nonUnitEqual" = some fallbackAxisNew := by simp [fallbackRule]
  have hf : fallbackAxisNew = axis := funext C13_fallback_new_eq
  unfold fallback broadcast
  rw [hr, hf]
  simp only [bc_mapOpt_reverse]
  cases mapOpt axis (columns shapes) <;> simp

/-! ## the fallback before the repair -/

theorem C13_fallback_old_differs : fallbackAxisOld [0, 1] = none ∧ axis [0, 1] = some 0 := by decide

theorem C13_fallback_old_order :
    fallback "maxBased" false [[2,3],[3]] = some [3,2] ∧ broadcast [[2,3],[3]] = some [2,3] := by
  decide

theorem bc_le_maxOf {lens : List Nat} {l : Nat} (h : l ∈ lens) : l ≤ maxOf lens := by
  induction lens with
  | nil => simp at h
  | cons a t ih =>
    simp only [maxOf, List.foldr_cons]
    rcases List.mem_cons.1 h with h | h
    · subst h; exact Nat.le_max_left _ _
    · exact Nat.le_trans (ih h) (Nat.le_max_right _ _)

theorem bc_maxOf_mem {lens : List Nat} (h : lens ≠ []) : maxOf lens ∈ lens := by
  induction lens with
  | nil => exact absurd rfl h
  | cons a t ih =>
    have hdef : maxOf (a :: t) = max a (maxOf t) := rfl
    cases t with
    | nil => simp [maxOf]
    | cons b t' =>
      have ih' := ih (by simp)
      rw [hdef, Nat.max_def]
      split
      · exact List.mem_cons_of_mem _ ih'
      · simp

/-- the statement without `lens ≠ []` is false: the old rule takes `max` of the column -/
theorem C13_fallback_old_partial_nil :
    ¬ (∀ lens : List Nat, (∀ l ∈ lens, l ≠ 0) → fallbackAxisOld lens = axis lens) := by
  intro h
  exact absurd (h [] (by simp)) (by decide)

theorem C13_fallback_old_partial (lens : List Nat) (hne : lens ≠ []) (h : ∀ l ∈ lens, l ≠ 0) :
    fallbackAxisOld lens = axis lens := by
  have hmem := bc_maxOf_mem hne
  unfold fallbackAxisOld
  simp only []
  split
  · rename_i hall
    have hall' : ∀ l ∈ lens, l = 1 ∨ l = maxOf lens := by simpa using hall
    exact ((C13_axis_spec lens _).2 ⟨hall', Or.inr hmem⟩).symm
  · rename_i hall
    have : ∃ l ∈ lens, l ≠ 1 ∧ l ≠ maxOf lens := by simpa using hall
    obtain ⟨l, hl, hl1, hlm⟩ := this
    refine ((C13_axis_none lens).2 ⟨l, hl, maxOf lens, hmem, hl1, ?_, hlm⟩).symm
    intro hm1
    have := bc_le_maxOf hl
    have := h l hl
    omega

/-! ## the old rule on whole shapes, and the column order -/

theorem bc_getD_mem_or (l : List Nat) (i d : Nat) : l.getD i d = d ∨ l.getD i d ∈ l := by
  simp only [List.getD_eq_getElem?_getD]
  cases h : l[i]? with
  | none => exact Or.inl rfl
  | some x => exact Or.inr (List.mem_of_getElem? h)

/-- with the output reversed back (the second repair alone), the old axis rule was right on shapes
without zero-length axes -/
theorem C13_fallback_old_partial_shapes (shapes : List (List Nat))
    (h : ∀ s ∈ shapes, ∀ l ∈ s, l ≠ 0) : fallback "maxBased" true shapes = broadcast shapes := by
  have hr : fallbackRule "maxBased" = some fallbackAxisOld := by simp [fallbackRule]
  have hcong : mapOpt fallbackAxisOld (columns shapes) = mapOpt axis (columns shapes) := by
    apply bc_mapOpt_congr
    intro col hcol
    simp only [columns, List.mem_map, List.mem_range] at hcol
    obtain ⟨i, _, rfl⟩ := hcol
    cases shapes with
    | nil => simp [rank] at *
    | cons s0 rest =>
      apply C13_fallback_old_partial
      · simp
      · intro l hl
        simp only [List.mem_map] at hl
        obtain ⟨s, hs, rfl⟩ := hl
        rcases bc_getD_mem_or (padLeft (rank (s0 :: rest)) s) i 1 with h1 | h1
        · rw [h1]; simp
        · generalize (padLeft (rank (s0 :: rest)) s).getD i 1 = x at h1 ⊢
          simp only [padLeft, List.mem_append, List.mem_replicate] at h1
          rcases h1 with ⟨_, h1⟩ | h1
          · rw [h1]; simp
          · exact h s hs _ h1
  unfold fallback broadcast
  rw [hr]
  simp only [bc_mapOpt_reverse, hcong]
  cases mapOpt axis (columns shapes) <;> simp

theorem bc_length_le_rank {shapes : List (List Nat)} {s : List Nat} (h : s ∈ shapes) :
    s.length ≤ rank shapes := by
  induction shapes with
  | nil => simp at h
  | cons a t ih =>
    simp only [rank, List.foldr_cons]
    rcases List.mem_cons.1 h with h | h
    · subst h; exact Nat.le_max_left _ _
    · exact Nat.le_trans (ih h) (Nat.le_max_right _ _)

theorem bc_rank_reverse (shapes : List (List Nat)) : rank (shapes.map List.reverse) = rank shapes := by
  induction shapes with
  | nil => rfl
  | cons a t ih =>
    simp only [rank, List.map_cons, List.foldr_cons, List.length_reverse] at ih ⊢
    rw [ih]

theorem bc_pad_entry {r j : Nat} {s : List Nat} (hs : s.length ≤ r) (hj : j < r) :
    (padLeft r s).getD (r - 1 - j) 1 = s.reverse.getD j 1 := by
  simp only [padLeft, List.getD_eq_getElem?_getD]
  by_cases h : j < s.length
  · rw [List.getElem?_append_right (by simp; omega), List.getElem?_reverse h]
    congr 2
    simp
    omega
  · rw [List.getElem?_append_left (by simp; omega)]
    have : s.reverse[j]? = none := by simp; omega
    rw [this, List.getElem?_replicate]
    split <;> rfl

/-- the fallback walks `zip_longest(*(reversed(s) for s in shapes), fillvalue=1)`: that is exactly the
right-aligned columns, last axis first -/
theorem C13_columns_zip_longest (shapes : List (List Nat)) :
    (columns shapes).reverse = zipLongest (shapes.map List.reverse) := by
  unfold columns zipLongest
  rw [bc_rank_reverse]
  apply List.ext_getElem
  · simp
  · intro j h1 h2
    have hj : j < rank shapes := by simpa using h2
    simp only [List.getElem_reverse, List.getElem_map, List.getElem_range, List.length_map,
      List.length_range, List.map_map]
    apply List.map_congr_left
    intro s hs
    exact bc_pad_entry (bc_length_le_rank hs) hj

/-! ## symmetry -/

theorem bc_rank_perm {s t : List (List Nat)} (h : s.Perm t) : rank s = rank t := by
  induction h with
  | nil => rfl
  | cons x _ ih => simp only [rank, List.foldr_cons] at ih ⊢; rw [ih]
  | swap x y l => simp only [rank, List.foldr_cons]; omega
  | trans _ _ ih₁ ih₂ => exact ih₁.trans ih₂

theorem C13_broadcast_perm_strong {s t : List (List Nat)} (h : s.Perm t) :
    broadcast s = broadcast t := by
  unfold broadcast columns
  rw [bc_rank_perm h, bc_mapOpt_map, bc_mapOpt_map]
  apply bc_mapOpt_congr
  intro i _
  apply bc_axis_congr
  intro x
  exact (h.map _).mem_iff

theorem C13_broadcast_perm {s t : List (List Nat)} (h : s.Perm t) :
    isBroadcastable s = isBroadcastable t := by
  unfold isBroadcastable
  rw [C13_broadcast_perm_strong h]

theorem C13_broadcast_comm (a b : List Nat) : broadcast [a, b] = broadcast [b, a] :=
  C13_broadcast_perm_strong (List.Perm.swap b a [])

/-! ## units -/

theorem bc_axis_single (x : Nat) : axis [x] = some x := by
  rw [C13_axis_spec]; simp

theorem bc_axis_pair_one (x : Nat) : axis [x, 1] = some x := by
  rw [C13_axis_spec]; simp

theorem bc_range_getD (a : List Nat) : (List.range a.length).map (fun i => a.getD i 1) = a := by
  apply List.ext_getElem
  · simp
  · intro i h1 h2
    simp at h1
    simp [h1]

theorem C13_broadcast_self (a : List Nat) : broadcast [a] = some a := by
  have hr : rank [a] = a.length := by simp [rank]
  unfold broadcast columns
  rw [hr, bc_mapOpt_map]
  rw [bc_mapOpt_some (g := fun i => a.getD i 1)]
  · rw [bc_range_getD]
  · intro i _
    simp only [List.map_cons, List.map_nil, padLeft, Nat.sub_self, List.replicate_zero,
      List.nil_append]
    exact bc_axis_single _

theorem C13_broadcast_unit (a : List Nat) : broadcast [a, []] = some a := by
  have hr : rank [a, []] = a.length := by simp [rank]
  unfold broadcast columns
  rw [hr, bc_mapOpt_map]
  rw [bc_mapOpt_some (g := fun i => a.getD i 1)]
  · rw [bc_range_getD]
  · intro i _
    have h1 : (padLeft a.length []).getD i 1 = 1 := by
      simp only [padLeft, List.length_nil, Nat.sub_zero, List.append_nil, List.getD_eq_getElem?_getD,
        List.getElem?_replicate]
      split <;> rfl
    simp only [List.map_cons, List.map_nil, h1]
    simp only [padLeft, Nat.sub_self, List.replicate_zero, List.nil_append]
    exact bc_axis_pair_one _

/-! ## the two conditions -/

theorem C13_shape_cond (v s : List Nat) : shapeHolds v s = true ↔ v = s := by
  simp [shapeHolds]

theorem C13_broadcastable_cond (v s : List Nat) :
    broadcastableHolds v s = true ↔ ∃ r, broadcast [v, s] = some r := by
  simp [broadcastableHolds, isBroadcastable, Option.isSome_iff_exists]

/-! ## closed cases -/

example : columns [[2,3],[3]] = [[2,1],[3,3]] := by decide
example : zipLongest [[3,2],[3]] = [[3,3],[2,1]] := by decide
example : broadcast [[2,0],[2,1]] = some [2,0] := by decide
example : broadcast [[0],[3]] = none := by decide
example : broadcast [[], [5]] = some [5] := by decide
example : broadcast [[2,3],[3]] = some [2,3] := by decide
example : broadcast [] = some [] := by decide
example : broadcast [[0],[1]] = some [0] := by decide
example : fallback "nonUnitEqual" true [[2,0],[2,1]] = some [2,0] := by decide
example : fallback "nonUnitEqual" true [[0],[1]] = some [0] := by decide
example : fallback "maxBased" true [[0],[1]] = none := by decide
example : fallback "other" true [[0],[1]] = none := by decide

end PaneModel.Broadcast


namespace PaneModel.Broadcast
open PaneModel

/-- **C13 (the source's fallback is the textbook rule).**  The per-axis rule, the right-aligned columns with fill value 1,
the reversal of the result and the preference for numpy are read from the current source of `broadcast_shapes`; with
them the pure-Python fallback computes exactly `broadcast` (numpy's rule), for every list of shapes. -/
theorem C13_fallback_facts :
    Facts.broadcastRule = some "nonUnitEqual" ∧ Facts.broadcastReverseBack = some true ∧
    Facts.broadcastZipReversed = some true ∧ Facts.broadcastDefersToNumpy = some true := by decide

theorem C13_fallback_source (shapes : List (List Nat)) :
    fallback (Facts.broadcastRule.getD "") (Facts.broadcastReverseBack.getD false) shapes = broadcast shapes := by
  have h := C13_fallback_facts
  rw [h.1, h.2.1]
  exact C13_fallback_eq shapes

end PaneModel.Broadcast

#print axioms PaneModel.Broadcast.C13_axis_spec
#print axioms PaneModel.Broadcast.C13_axis_none
#print axioms PaneModel.Broadcast.C13_fallback_new_eq
#print axioms PaneModel.Broadcast.C13_fallback_eq
#print axioms PaneModel.Broadcast.C13_fallback_old_differs
#print axioms PaneModel.Broadcast.C13_fallback_old_order
#print axioms PaneModel.Broadcast.C13_fallback_old_partial_nil
#print axioms PaneModel.Broadcast.C13_fallback_old_partial
#print axioms PaneModel.Broadcast.C13_fallback_old_partial_shapes
#print axioms PaneModel.Broadcast.C13_columns_zip_longest
#print axioms PaneModel.Broadcast.C13_broadcast_perm_strong
#print axioms PaneModel.Broadcast.C13_broadcast_perm
#print axioms PaneModel.Broadcast.C13_broadcast_comm
#print axioms PaneModel.Broadcast.C13_broadcast_self
#print axioms PaneModel.Broadcast.C13_broadcast_unit
#print axioms PaneModel.Broadcast.C13_shape_cond
#print axioms PaneModel.Broadcast.C13_broadcastable_cond
#print axioms PaneModel.Broadcast.C13_fallback_facts
#print axioms PaneModel.Broadcast.C13_fallback_source
