import PaneModel.Lemmas.CacheProofs
import PaneModel.Generated.Facts
/-!
# C10 — Results are independent of call history (memoisation is transparent)

Full statement (properties.jsonl): the outcome of converting a value to a type with given custom
handlers depends only on those three things: not on which conversions ran earlier, on whether type
objects used earlier have since been garbage-collected, on the order in which types were first
seen, or on concurrent use from several threads.  A memoised converter lookup always behaves like a
converter freshly built for the same type and handlers.

The unbounded theorems over ALL valid operation histories (adversarial address allocator, drop,
gc) and ALL thread interleavings of the cache machine `Model/Cache.lean` are in
`Lemmas/CacheProofs.lean`: `C10_inv_step`, `C10_call_fresh`, `C10_transparent` (= the cached run
equals the cache-less reference run), `C10_order_independent`, `C10_schedules`, the LRU refinement
`C10_lru_*`, and the negation `C10_negation_idOnly` (with an id-only key a valid 6-op history
returns a stale converter).  This file ties the machine's key form and lookup-or-build step to the
CURRENT source.  PARTIAL: atomicity of `dict.get` / `dict.__setitem__` is CPython's (GIL) and is
assumed; sub-builds inside one `make_converter` call are not modelled (they are reachable from the
parent type object, which the key keeps alive).
-/
namespace PaneModel.Cache

def keyFormOfFacts : Option String → Option KeyForm
  | some "idOnly" => some .idOnly
  | some "idWithStrongRef" => some .idWithStrongRef
  | _ => none

/-- the cache key of `make_converter` holds a strong reference to the type object (D12 repaired) -/
theorem C10_facts_key : keyFormOfFacts Facts.cacheKey = some .idWithStrongRef := by decide
/-- `make_converter` is wrapped by `key_cache(_make_converter_key_f)` in unbounded mode, and the
unbounded branch of `KeyCache.__call__` is the key / get / build / set sequence the machine models -/
theorem C10_facts_lookup : Facts.keyCacheUnbounded = some true := by decide

/-- Transparency for the key form the source actually uses. -/
theorem C10_transparent_source (ops : List Op) (kf : KeyForm) (hk : keyFormOfFacts Facts.cacheKey = some kf)
    (hv : ValidHist kf Sys.init ops = true) : run kf Sys.init ops = runFresh Sys.init ops := by
  have : kf = .idWithStrongRef := by
    have h := C10_facts_key
    rw [hk] at h
    exact Option.some.inj h
  subst this
  exact C10_transparent_init ops hv

#print axioms C10_facts_key
#print axioms C10_facts_lookup
#print axioms C10_transparent_source
#print axioms C10_inv_init
#print axioms C10_inv_step
#print axioms C10_call_fresh
#print axioms C10_transparent
#print axioms C10_order_independent
#print axioms C10_schedules
#print axioms C10_negation_idOnly
#print axioms C10_lru_value
#print axioms C10_lru_inv
#print axioms C10_lru_bound
#print axioms C10_lru_transparent
#print axioms C10_lru_recency

end PaneModel.Cache
