import PaneModel.Props.C03
import PaneModel.Lemmas.Union
/-!
# C11 — Untagged unions: the left-most accepting member wins

`Union[A, B, …]` is converted by trying the member converters in declaration order
(`UnionConverter.try_convert`: `for conv in self.converters: try: return conv.try_convert(val) except
ParseInterrupt: pass`).  The theorems below pin that down for all three passes:

* fast pass (`tryC`): the value is the left-most accepting member's value; members after it are
  never consulted; all members rejecting ⇒ the union rejects;
* diagnostic pass (`colC`): on rejection the `SumErrorNode` has exactly one child per member, in
  declaration order, each equal to that member's own report;
* serialisation (`intoC`): the serialiser of the left-most member whose fast pass accepts the value,
  the untyped `into_data` if none does;
* construction (`mkTy`): members are converted in order, none dropped, none reordered; nesting a
  union converter inside a union converter is the same as flattening it.
-/
namespace PaneModel

variable {E : Ext}

/-! ## Fast pass -/

/-- the fast pass of a union is the left-to-right loop over its members' fast passes -/
theorem C11_first (cs : List Conv) (v : Val) : tryC E (.union cs) v = firstOk (tryCs E cs) v := by
  rfl

/-- the value of a union is the value of some member `i`, and every member before `i` rejected -/
theorem C11_result_is_leftmost {cs : List Conv} {v x : Val} (h : tryC E (.union cs) v = .ok x) :
    ∃ (i : Nat) (hi : i < cs.length), tryC E cs[i] v = .ok x ∧
      ∀ (j : Nat) (hj : j < i), tryC E (cs[j]'(Nat.lt_trans hj hi)) v = .interrupt := by
  rw [C11_first] at h
  obtain ⟨i, hi, h1, h2⟩ := firstOk_ok_leftmost h
  have hi' : i < cs.length := by rw [tryCs_length] at hi; exact hi
  refine ⟨i, hi', by rw [← tryCs_getElem E cs i hi']; exact h1, ?_⟩
  intro j hj
  rw [← tryCs_getElem E cs j (Nat.lt_trans hj hi')]
  exact h2 j hj

/-- conversely: if member `i` accepts and all earlier members reject, the union returns member `i`'s value -/
theorem C11_leftmost_is_result {cs : List Conv} {v x : Val} {i : Nat} (hi : i < cs.length)
    (h1 : tryC E cs[i] v = .ok x)
    (h2 : ∀ (j : Nat) (hj : j < i), tryC E (cs[j]'(Nat.lt_trans hj hi)) v = .interrupt) :
    tryC E (.union cs) v = .ok x := by
  rw [C11_first]
  refine firstOk_of_leftmost (i := i) (by rw [tryCs_length]; exact hi) ?_ ?_
  · rw [tryCs_getElem E cs i hi]; exact h1
  · intro j hj
    rw [tryCs_getElem E cs j (Nat.lt_trans hj hi)]
    exact h2 j hj

/-- if no member leaks an exception (true for every well-formed converter, see
`C11_accept_iff_wf`), the union accepts exactly when some member accepts -/
theorem C11_accept_iff {cs : List Conv} {v : Val} (hnl : ∀ c ∈ cs, ∀ e, tryC E c v ≠ .leak e) :
    (∃ x, tryC E (.union cs) v = .ok x) ↔ ∃ c ∈ cs, ∃ x, tryC E c v = .ok x := by
  rw [C11_first]
  have hnl' : ∀ f ∈ tryCs E cs, ∀ e, f v ≠ .leak e := by
    intro f hf e
    obtain ⟨c, hc, rfl⟩ := mem_tryCs hf
    exact hnl c hc e
  rw [firstOk_isOk_iff hnl']
  constructor
  · rintro ⟨f, hf, x, hx⟩
    obtain ⟨c, hc, rfl⟩ := mem_tryCs hf
    exact ⟨c, hc, x, hx⟩
  · rintro ⟨c, hc, x, hx⟩
    exact ⟨tryC E c, tryC_mem_tryCs hc, x, hx⟩

/-- the same under the C03 hypotheses only -/
theorem C11_accept_iff_wf (hG : GuardsCover = true) (hE : ExtOk E) {cs : List Conv}
    (hwf : (Conv.union cs).wf = true) (v : Val) :
    (∃ x, tryC E (.union cs) v = .ok x) ↔ ∃ c ∈ cs, ∃ x, tryC E c v = .ok x :=
  C11_accept_iff fun c hc e =>
    C03_try_no_leak hG hE c (wfList_mem (by simpa only [Conv.wf] using hwf) c hc) v e

/-- members after the accepting one are irrelevant: they can be replaced by anything (they are never
run, so they can neither change the value nor raise) -/
theorem C11_later_members_irrelevant {cs : List Conv} {v x : Val} {i : Nat} (hi : i < cs.length)
    (h1 : tryC E cs[i] v = .ok x)
    (h2 : ∀ (j : Nat) (hj : j < i), tryC E (cs[j]'(Nat.lt_trans hj hi)) v = .interrupt)
    (cs' : List Conv) :
    tryC E (.union (cs.take (i + 1) ++ cs')) v = tryC E (.union cs) v := by
  rw [C11_leftmost_is_result hi h1 h2]
  have hlen : i < (cs.take (i + 1) ++ cs').length := by
    simp only [List.length_append, List.length_take]; omega
  have hget : ∀ (j : Nat) (hj : j ≤ i),
      (cs.take (i + 1) ++ cs')[j]'(Nat.lt_of_le_of_lt hj hlen) = cs[j]'(Nat.lt_of_le_of_lt hj hi) := by
    intro j hj
    rw [List.getElem_append_left (by simp only [List.length_take]; omega), List.getElem_take]
  refine C11_leftmost_is_result hlen ?_ ?_
  · rw [hget i (Nat.le_refl _)]; exact h1
  · intro j hj
    rw [hget j (Nat.le_of_lt hj)]
    exact h2 j hj

/-- every member rejects ⇒ the union rejects -/
theorem C11_all_reject {cs : List Conv} {v : Val} (h : ∀ c ∈ cs, tryC E c v = .interrupt) :
    tryC E (.union cs) v = .interrupt := by
  rw [C11_first]
  apply firstOk_all_interrupt
  intro f hf
  obtain ⟨c, hc, rfl⟩ := mem_tryCs hf
  exact h c hc

/-- … and (without leaks) only then -/
theorem C11_reject_all {cs : List Conv} {v : Val} (h : tryC E (.union cs) v = .interrupt) :
    ∀ c ∈ cs, tryC E c v = .interrupt := by
  rw [C11_first] at h
  intro c hc
  exact firstOk_interrupt_all h _ (tryC_mem_tryCs hc)

/-! ## Diagnostic pass -/

/-- **one child per member.** When a well-formed union rejects, the diagnostic pass returns a
`SumErrorNode` whose children are, in declaration order, exactly the members' own error trees. -/
theorem C11_diag_children (hG : GuardsCover = true) (hE : ExtOk E) {cs : List Conv}
    (hwf : (Conv.union cs).wf = true) {v : Val} (hr : tryC E (.union cs) v = .interrupt) :
    ∃ ts : List Err, colC E (.union cs) v = .ok (some (.sum ts)) ∧ ts.length = cs.length ∧
      ∀ (i : Nat) (hi : i < cs.length) (ht : i < ts.length), colC E cs[i] v = .ok (some ts[i]) := by
  have hgs : GoodFs (tryCs E cs) (colCs E cs) := C03.goods hG hE cs (by simpa only [Conv.wf] using hwf)
  rw [C11_first] at hr
  obtain ⟨l, h1, h2, h3⟩ := sumCol_children hgs hr
  refine ⟨l, by simp only [colC, h1], by rw [h2, colCs_length], ?_⟩
  intro i hi ht
  rw [← colCs_getElem E cs i hi]
  exact h3 i (by rw [colCs_length]; exact hi) ht

/-- a union that accepts has no error tree at all (instance of C03) -/
theorem C11_diag_none (hG : GuardsCover = true) (hE : ExtOk E) {cs : List Conv}
    (hwf : (Conv.union cs).wf = true) {v x : Val} (h : tryC E (.union cs) v = .ok x) :
    colC E (.union cs) v = .ok none :=
  C03_accepted_no_tree hG hE _ hwf v x h

/-! ## Serialisation -/

/-- `UnionConverter.into_data` is the loop "first member whose `try_convert` accepts the value" -/
theorem C11_serialise (dyn : Val → Except Exc Val) (cs : List Conv) (x : Val) :
    intoC E dyn (.union cs) x = unionInto dyn (tryCs E cs) (intoCs E dyn cs) x := by
  rfl

/-- the value is serialised by the left-most member accepting it, or — if no member does — by the
untyped `into_data` (`dyn`).  Leak-free case (all well-formed converters, by C03). -/
theorem C11_serialise_accepting (dyn : Val → Except Exc Val) {cs : List Conv} {x : Val}
    (hnl : ∀ c ∈ cs, ∀ e, tryC E c x ≠ .leak e) :
    (∃ (j : Nat) (hj : j < cs.length) (y : Val), tryC E cs[j] x = .ok y ∧
        (∀ (k : Nat) (hk : k < j), tryC E (cs[k]'(Nat.lt_trans hk hj)) x = .interrupt) ∧
        intoC E dyn (.union cs) x = intoC E dyn cs[j] x) ∨
    ((∀ c ∈ cs, tryC E c x = .interrupt) ∧ intoC E dyn (.union cs) x = dyn x) := by
  rw [C11_serialise]
  have hnl' : ∀ f ∈ tryCs E cs, ∀ e, f x ≠ .leak e := by
    intro f hf e
    obtain ⟨c, hc, rfl⟩ := mem_tryCs hf
    exact hnl c hc e
  rcases unionInto_char (dyn := dyn) (ts := tryCs E cs) (ss := intoCs E dyn cs) (v := x)
      (by rw [tryCs_length, intoCs_length]) hnl' with ⟨j, hj, hs, y, h1, h2, h3⟩ | ⟨h1, h2⟩
  · have hj' : j < cs.length := by rw [tryCs_length] at hj; exact hj
    refine .inl ⟨j, hj', y, by rw [← tryCs_getElem E cs j hj']; exact h1, ?_, ?_⟩
    · intro k hk
      rw [← tryCs_getElem E cs k (Nat.lt_trans hk hj')]
      exact h2 k hk
    · rw [h3, intoCs_getElem E dyn cs j hj']
  · exact .inr ⟨fun c hc => h1 _ (tryC_mem_tryCs hc), h2⟩

/-- a leak of a member's fast pass during serialisation surfaces as that exception -/
theorem C11_serialise_wf (hG : GuardsCover = true) (hE : ExtOk E) (dyn : Val → Except Exc Val)
    {cs : List Conv} (hwf : (Conv.union cs).wf = true) (x : Val) :
    (∃ (j : Nat) (hj : j < cs.length) (y : Val), tryC E cs[j] x = .ok y ∧
        (∀ (k : Nat) (hk : k < j), tryC E (cs[k]'(Nat.lt_trans hk hj)) x = .interrupt) ∧
        intoC E dyn (.union cs) x = intoC E dyn cs[j] x) ∨
    ((∀ c ∈ cs, tryC E c x = .interrupt) ∧ intoC E dyn (.union cs) x = dyn x) :=
  C11_serialise_accepting dyn fun c hc e =>
    C03_try_no_leak hG hE c (wfList_mem (by simpa only [Conv.wf] using hwf) c hc) x e

/-! ## Construction: order kept, nesting = flattening -/

/-- `make_converter(Union[t₁, …, tₙ])` builds the member converters in order and wraps them -/
theorem C11_build (env : Env) (mkCls : ClassEntry → Handlers → Except BuildErr Conv) (H : Handlers)
    (ts : List Ty) :
    mkTy env mkCls H (.union ts) = (exAll (mkTys env mkCls H ts)).map .union := rfl

/-- none dropped, none reordered: the `i`-th member converter is the converter of the `i`-th member type -/
theorem C11_build_members {env : Env} {mkCls : ClassEntry → Handlers → Except BuildErr Conv} {H : Handlers}
    {ts : List Ty} {c : Conv} (h : mkTy env mkCls H (.union ts) = .ok c) :
    ∃ cs : List Conv, c = .union cs ∧ cs.length = ts.length ∧
      ∀ (i : Nat) (hi : i < ts.length) (hc : i < cs.length), mkTy env mkCls H ts[i] = .ok cs[i] := by
  rw [C11_build] at h
  cases hx : exAll (mkTys env mkCls H ts) with
  | error e => rw [hx] at h; cases h
  | ok cs =>
    rw [hx] at h
    cases h
    obtain ⟨h1, h2⟩ := exAll_ok hx
    refine ⟨cs, rfl, by rw [h1, mkTys_length], ?_⟩
    intro i hi hc
    rw [← mkTys_getElem env mkCls H ts i hi]
    exact h2 i (by rw [mkTys_length]; exact hi) hc

/-- a member type that cannot be built fails the whole union (no member is silently dropped) -/
theorem C11_build_all_or_nothing {env : Env} {mkCls : ClassEntry → Handlers → Except BuildErr Conv}
    {H : Handlers} {ts : List Ty} (h : ∀ t ∈ ts, ∃ c, mkTy env mkCls H t = .ok c) :
    ∃ cs, mkTy env mkCls H (.union ts) = .ok (.union cs) := by
  obtain ⟨cs, hcs⟩ := exAll_of_all_ok (xs := mkTys env mkCls H ts) (by
    intro x hx
    obtain ⟨t, ht, rfl⟩ := mem_mkTys hx
    exact h t ht)
  exact ⟨cs, by rw [C11_build, hcs]; rfl⟩

/-- **flattening.** `Union[A…, Union[B…], C…]` and `Union[A…, B…, C…]` convert identically (`typing`
flattens the type itself; a converter tree that still nests behaves the same). -/
theorem C11_nested_is_flat (cs₁ cs₂ cs₃ : List Conv) (v : Val) :
    tryC E (.union (cs₁ ++ [.union cs₂] ++ cs₃)) v = tryC E (.union (cs₁ ++ cs₂ ++ cs₃)) v := by
  rw [C11_first, C11_first, tryCs_append, tryCs_append, tryCs_append, tryCs_append]
  have : tryCs E [.union cs₂] = [firstOk (tryCs E cs₂)] := by
    simp only [tryCs]
    rfl
  rw [this]
  exact firstOk_flatten _ _ _ v

/-- `Optional[X]` is `Union[X, None]`: `None` is accepted iff `X` rejects or accepts it first -/
theorem C11_optional_none (c : Conv) (h : tryC E c .none = .interrupt) :
    tryC E (.union [c, .noneC]) .none = .ok .none := by
  simp only [tryC, tryCs, firstOk, h]

theorem C11_optional_other (c : Conv) (v : Val) (hv : v ≠ .none) :
    tryC E (.union [c, .noneC]) v = tryC E c v := by
  simp only [C11_first, tryCs, firstOk]
  cases h : tryC E c v with
  | ok y => rfl
  | leak e => rfl
  | interrupt =>
    cases v <;> first | exact absurd rfl hv | simp only [tryC]

/-! ## Non-vacuity -/

/-- `int | float | str`-like union over the extracted rows: `True` is taken by the `int` member
(left-most), although `float` would accept it too -/
example : tryC extRaising (.union [exInt, .scalar "float" [.int, .float] .viaCtor "a float" "floats"]) (.bool true)
    = .ok (.int 1) := by rfl
/-- reversed declaration order gives the other member's value -/
example : tryC extRaising (.union [.scalar "float" [.int, .float] .viaCtor "a float" "floats", exInt]) (.bool true)
    = .ok (.float (.fin 1 0)) := by rfl
/-- two children, in order, for a value both members reject -/
example : ∃ a b, colC extRaising exConv (.str "x") = .ok (some (.sum [a, b])) := ⟨_, _, rfl⟩
example : (Conv.union [exInt, .noneC]).wf = true := by decide
/-- the hypotheses of `C11_diag_children` are satisfiable together -/
example : ∃ ts : List Err, colC extRaising exConv (.str "x") = .ok (some (.sum ts)) ∧ ts.length = 2 := by
  obtain ⟨ts, h1, h2, _⟩ := C11_diag_children C03_guards extRaising_ok (cs := [.seq "list" exInt, .pane exPoint [exInt, exInt]])
    (by decide) (v := .str "x") (by rfl)
  exact ⟨ts, h1, h2⟩
/-- serialisation picks the member that accepts the value -/
example : intoC extRaising (fun v => .ok v) (.union [exInt, .seq "tuple" exInt]) (.tuple [.int 1]) = .ok (.tuple [.int 1]) := by rfl

/-! ## Axioms -/

#print axioms C11_first
#print axioms C11_accept_iff
#print axioms C11_accept_iff_wf
#print axioms C11_result_is_leftmost
#print axioms C11_leftmost_is_result
#print axioms C11_later_members_irrelevant
#print axioms C11_all_reject
#print axioms C11_reject_all
#print axioms C11_diag_children
#print axioms C11_diag_none
#print axioms C11_serialise
#print axioms C11_serialise_accepting
#print axioms C11_serialise_wf
#print axioms C11_build
#print axioms C11_build_members
#print axioms C11_build_all_or_nothing
#print axioms C11_nested_is_flat
#print axioms C11_optional_none
#print axioms C11_optional_other

end PaneModel
