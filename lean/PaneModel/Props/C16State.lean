import PaneModel.Model.Pane
/-!
# C16 (state part) — frozen instances, attribute deletion, copy, replace

`Props/C16.lean` holds the value-semantics theorems (equality, order, hash, repr).  Here: the
mutable-state clauses of the statement, about the instance operations of `Model/Pane.lean`
(`setattrM`, `delattrM`, `copyM`, `replaceM`), which are corresponded with `__setattr__`,
`__delattr__`, `__copy__`/`__deepcopy__` and `__replace__` on generated classes.
-/
namespace PaneModel

/-- a frozen instance rejects every attribute assignment (FrozenInstanceError is an AttributeError) -/
theorem C16_frozen_setattr (info : PaneInfo) (o : Val) (n : String) (v : Val) :
    ∃ e, setattrM true info o n v = .error e ∧ e.cls = .attributeError := by
  exact ⟨_, rfl, rfl⟩

/-- attribute deletion is always refused -/
theorem C16_delattr (o : Val) (n : String) : ∃ e, delattrM o n = .error e ∧ e.cls = .attributeError :=
  ⟨_, rfl, rfl⟩

/-- on a non-frozen instance an assignment to a declared field is recorded in the set-field record -/
theorem C16_unfrozen_tracks (info : PaneInfo) (c : String) (fs : List (String × Val)) (set : List String)
    (n : String) (v : Val) (hn : info.fields.any (·.name == n) = true) :
    ∃ fs' set', setattrM false info (.obj c fs set) n v = .ok (.obj c fs' set') ∧
      set' = (info.fields.filter fun f => (if set.contains n then set else set ++ [n]).contains f.name).map (·.name) := by
  simp only [setattrM, hn, Bool.not_true, Bool.false_eq_true, ↓reduceIte, mkObj]
  exact ⟨_, _, rfl, rfl⟩

/-- an assignment to a name that is not a field is an AttributeError (no such slot), also when not frozen -/
theorem C16_setattr_unknown (info : PaneInfo) (c : String) (fs : List (String × Val)) (set : List String)
    (n : String) (v : Val) (hn : info.fields.any (·.name == n) = false) :
    ∃ e, setattrM false info (.obj c fs set) n v = .error e ∧ e.cls = .attributeError := by
  simp only [setattrM, hn, Bool.not_false, ↓reduceIte, Bool.false_eq_true]
  exact ⟨_, rfl, rfl⟩

/-- `replace(obj, **changes)` IS the checked constructor applied to the explicitly set fields
overridden by the changes: so what it changes is re-validated (a bad value is a ConvertError) and
untouched set fields are passed through the same conversion. -/
theorem C16_replace_is_construct (E : Ext) (info : PaneInfo) (conv : Nat → Val → Result) (c : String)
    (fs : List (String × Val)) (set : List String) (changes : List (String × Val)) :
    replaceM E info conv (.obj c fs set) changes =
      let cur := (info.fields.filter fun f => set.contains f.name).filterMap fun f => fs.find? (·.1 == f.name)
      constructM E info conv true []
        ((cur.map fun (k, v) => match changes.find? (·.1 == k) with | some ch => (k, ch.2) | none => (k, v))
          ++ changes.filter fun ch => !cur.any (·.1 == ch.1)) := rfl

/-- copy of an instance all of whose fields are assigned, for a class without validation hook: the
same attribute values in field order and the same set-field record (restricted to fields) -/
theorem C16_copy (E : Ext) (info : PaneInfo) (c : String) (fs : List (String × Val)) (set : List String)
    (hall : info.fields.find? (fun f => !fs.any (·.1 == f.name)) = none) (hh : info.hook = none) :
    copyM E info (.obj c fs set) =
      .value (mkObj info (info.fields.filterMap fun f => fs.find? (·.1 == f.name)) set) := by
  simp only [copyM, hall, fromDictUnchecked, runHook, hh, Option.getD_some]

/-- a field that was never assigned makes `copy` raise AttributeError (as `getattr` does) -/
theorem C16_copy_unset (E : Ext) (info : PaneInfo) (c : String) (fs : List (String × Val)) (set : List String)
    (f : FieldInfo) (hf : info.fields.find? (fun f => !fs.any (·.1 == f.name)) = some f) :
    ∃ e, copyM E info (.obj c fs set) = .raises e ∧ e.cls = .attributeError := by
  simp only [copyM, hf]
  exact ⟨_, rfl, rfl⟩

/-- with a validation hook, copying runs it again: a raising hook makes the copy raise -/
theorem C16_copy_runs_hook (E : Ext) (info : PaneInfo) (c : String) (fs : List (String × Val)) (set : List String)
    (h : String) (e : Exc)
    (hall : info.fields.find? (fun f => !fs.any (·.1 == f.name)) = none) (hh : info.hook = some h)
    (he : ∀ xs st, E.hook h xs st = .error e) :
    copyM E info (.obj c fs set) = .raises e := by
  simp only [copyM, hall, fromDictUnchecked, runHook, hh, he]

#print axioms C16_frozen_setattr
#print axioms C16_delattr
#print axioms C16_unfrozen_tracks
#print axioms C16_setattr_unknown
#print axioms C16_replace_is_construct
#print axioms C16_copy
#print axioms C16_copy_unset
#print axioms C16_copy_runs_hook

end PaneModel
