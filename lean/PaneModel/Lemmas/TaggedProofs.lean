import PaneModel.Lemmas.AgreeCases
import PaneModel.Lemmas.CondProofs
/-!
# Helper lemmas for C12 (tagged unions)

* `extractTag` on each layout; `pyLookup` failures;
* the four ways through `tryC` / `colC` of a tagged union (not a mapping handled in the property file):
  no tag shape, tag key missing, tag not in the map, dispatch;
* `buildTagMap`: shape of a successful result, kinds of failure;
* `mkTy` on `Annotated[Union[…], Tagged(tag)]`;
* `intoC` of a tagged union on a dataclass instance.
-/
namespace PaneModel

variable {E : Ext}

/-! ## Lists of compiled converters -/

theorem tryCs_getElem? (E : Ext) : ∀ (cs : List Conv) (i : Nat), (tryCs E cs)[i]? = cs[i]?.map (tryC E)
  | [], i => by simp [tryCs]
  | c :: cs, 0 => by simp [tryCs]
  | c :: cs, i + 1 => by simp [tryCs, tryCs_getElem? E cs i]

theorem colCs_getElem? (E : Ext) : ∀ (cs : List Conv) (i : Nat), (colCs E cs)[i]? = cs[i]?.map (colC E)
  | [], i => by simp [colCs]
  | c :: cs, 0 => by simp [colCs]
  | c :: cs, i + 1 => by simp [colCs, colCs_getElem? E cs i]

theorem intoCs_getElem? (E : Ext) (dyn : Val → Except Exc Val) :
    ∀ (cs : List Conv) (i : Nat), (intoCs E dyn cs)[i]? = cs[i]?.map (intoC E dyn)
  | [], i => by simp [intoCs]
  | c :: cs, 0 => by simp [intoCs]
  | c :: cs, i + 1 => by simp [intoCs, intoCs_getElem? E dyn cs i]

theorem applyAt_tryCs {cs : List Conv} {i : Nat} (h : i < cs.length) (body : Val) :
    applyAt (tryCs E cs) i body = tryC E cs[i] body := by
  simp [applyAt, tryCs_getElem?, List.getElem?_eq_getElem h]

theorem applyAt_colCs {cs : List Conv} {i : Nat} (h : i < cs.length) (body : Val) :
    applyAt (colCs E cs) i body = colC E cs[i] body := by
  simp [applyAt, colCs_getElem?, List.getElem?_eq_getElem h]

/-- `applyAt` returns a value only at an existing index -/
theorem applyAt_tryCs_ok {cs : List Conv} {i : Nat} {body x : Val}
    (h : applyAt (tryCs E cs) i body = .ok x) : ∃ hi : i < cs.length, tryC E cs[i] body = .ok x := by
  by_cases hi : i < cs.length
  · exact ⟨hi, by rw [← applyAt_tryCs hi]; exact h⟩
  · simp [applyAt, tryCs_getElem?, List.getElem?_eq_none (Nat.le_of_not_lt hi)] at h

/-! ## `pyEq` on strings, `lookupPy` -/

theorem pyEq_str (a b : String) : Val.pyEq (.str a) (.str b) = (a == b) := by
  simp [Val.pyEq]

theorem pyEq_str_self (a : String) : Val.pyEq (.str a) (.str a) = true := by
  simp [pyEq_str]

theorem lookupPy_none_iff {α} {k : Val} : ∀ {d : List (Val × α)},
    Val.lookupPy k d = none ↔ ∀ p ∈ d, Val.pyEq k p.1 = false
  | [] => by simp [Val.lookupPy]
  | (k', a) :: rest => by
    simp only [Val.lookupPy, List.mem_cons, forall_eq_or_imp]
    cases h : Val.pyEq k k' with
    | true => simp
    | false => simpa using lookupPy_none_iff (d := rest)

theorem lookupPy_some_mem {α} {k : Val} {a : α} : ∀ {d : List (Val × α)},
    Val.lookupPy k d = some a → ∃ k', (k', a) ∈ d ∧ Val.pyEq k k' = true
  | [], h => by cases h
  | (k', b) :: rest, h => by
    simp only [Val.lookupPy] at h
    split at h
    · rename_i hk; cases h; exact ⟨k', List.mem_cons_self, hk⟩
    · obtain ⟨k'', hm, hk⟩ := lookupPy_some_mem h
      exact ⟨k'', List.mem_cons_of_mem _ hm, hk⟩

theorem lookupPy_append_none {α} {k : Val} {d₁ d₂ : List (Val × α)} :
    Val.lookupPy k (d₁ ++ d₂) = none ↔ Val.lookupPy k d₁ = none ∧ Val.lookupPy k d₂ = none := by
  simp only [lookupPy_none_iff, List.mem_append]
  exact ⟨fun h => ⟨fun p hp => h p (.inl hp), fun p hp => h p (.inr hp)⟩,
    fun h p hp => hp.elim (h.1 p) (h.2 p)⟩

/-! ## `pyLookup` -/

theorem pyLookup_unhashable {α} {k : Val} (d : List (Val × α)) (h : k.hashable = false) :
    pyLookup k d = .error { cls := .typeError, msg := "TypeError: unhashable type: '" ++ k.typeName ++ "'" } := by
  simp [pyLookup, h]

theorem pyLookup_missing {α} {k : Val} {d : List (Val × α)} (h : k.hashable = true)
    (h' : Val.lookupPy k d = none) : pyLookup k d = .error { cls := .keyError, msg := "KeyError" } := by
  simp [pyLookup, h, h']

theorem pyLookup_ok_iff {α} {k : Val} {d : List (Val × α)} {a : α} :
    pyLookup k d = .ok a ↔ k.hashable = true ∧ Val.lookupPy k d = some a := by
  unfold pyLookup
  cases hh : k.hashable with
  | false => simp
  | true =>
    cases hl : Val.lookupPy k d with
    | none => simp
    | some b => simp

/-! ## `extractTag` per layout -/

theorem extractTag_internal_some {tag : String} {v t : Val}
    (h : Val.lookupPy (.str tag) v.mapItems = some t) :
    extractTag .internal tag v = some (.ok (t, .dict (dictErase (.str tag) v.mapItems))) := by
  simp [extractTag, h]

theorem extractTag_internal_none {tag : String} {v : Val}
    (h : Val.lookupPy (.str tag) v.mapItems = none) :
    extractTag .internal tag v = some (.error { cls := .keyError, msg := "KeyError: '" ++ tag ++ "'" }) := by
  simp [extractTag, h]

theorem extractTag_external_one {tag : String} {v t body : Val} (h : v.mapItems = [(t, body)]) :
    extractTag .external tag v = some (.ok (t, body)) := by
  simp [extractTag, h]

theorem extractTag_external_ne {tag : String} {v : Val} (h : v.mapItems.length ≠ 1) :
    extractTag .external tag v = none := by
  unfold extractTag
  simp only []
  split
  · rename_i heq; simp [heq] at h
  · rfl

theorem extractTag_adjacent_len {tag tk ck : String} {v : Val} (h : v.mapItems.length ≠ 2) :
    extractTag (.adjacent tk ck) tag v = none := by
  simp [extractTag, h]

theorem extractTag_adjacent_ok {tag tk ck : String} {v t body : Val} (h : v.mapItems.length = 2)
    (h1 : Val.lookupPy (.str tk) v.mapItems = some t) (h2 : Val.lookupPy (.str ck) v.mapItems = some body) :
    extractTag (.adjacent tk ck) tag v = some (.ok (t, body)) := by
  simp [extractTag, h, h1, h2]

theorem extractTag_adjacent_missing {tag tk ck : String} {v : Val} (h : v.mapItems.length = 2)
    (h' : Val.lookupPy (.str tk) v.mapItems = none ∨ Val.lookupPy (.str ck) v.mapItems = none) :
    extractTag (.adjacent tk ck) tag v = some (.error { cls := .keyError, msg := "KeyError" }) := by
  unfold extractTag
  simp only [h, bne_self_eq_false, Bool.false_eq_true, if_false]
  split
  · rename_i h1 h2; rcases h' with h' | h' <;> simp_all
  · rfl

/-! ## The ways through a tagged union -/

/-- `expected()` of the list of declared tags, as the error messages print it -/
def tagExpOf (E : Ext) (tm : List (Val × Nat)) : String := listPhrase (tm.map fun p => pyRepr E p.1)

/-- the `expected` text when the mapping has no tag shape (wrong number of items) -/
def noShapeMsg (E : Ext) (cs : List Conv) (tag : String) (tm : List (Val × Nat)) : Layout → String
  | .adjacent t c => "mapping with keys '" ++ t ++ "' and '" ++ c ++ "'"
  | L => expected E (.tagged cs tag tm L) false

/-- the `expected` text when the tag key is absent -/
def noKeyMsg (E : Ext) (tag : String) (tm : List (Val × Nat)) : Layout → String
  | .adjacent t c => "mapping with keys '" ++ t ++ "' and '" ++ c ++ "'"
  | _ => "mapping with key '" ++ tag ++ "' => " ++ tagExpOf E tm

theorem tagged_not_map {cs tag tm L} {v : Val} (hm : v.isMap = false) :
    tryC E (.tagged cs tag tm L) v = .interrupt ∧
    colC E (.tagged cs tag tm L) v = .ok (some (.wrongType (expected E (.tagged cs tag tm L) false) v none none)) := by
  simp [tryC, colC, hm]

theorem tagged_no_shape {cs tag tm L} {v : Val} (hm : v.isMap = true) (hx : extractTag L tag v = none) :
    tryC E (.tagged cs tag tm L) v = .interrupt ∧
    colC E (.tagged cs tag tm L) v = .ok (some (.wrongType (noShapeMsg E cs tag tm L) v none none)) := by
  simp only [tryC, colC, hm, hx, Bool.not_true, Bool.false_eq_true, if_false]
  cases L <;> exact ⟨trivial, rfl⟩

theorem tagged_no_key {cs tag tm L} {v : Val} {e : Exc}
    (hPT : covers (Facts.catches .taggedPopTry) .keyError = true)
    (hPC : covers (Facts.catches .taggedPopCollect) .keyError = true)
    (hm : v.isMap = true) (hx : extractTag L tag v = some (.error e)) :
    tryC E (.tagged cs tag tm L) v = .interrupt ∧
    colC E (.tagged cs tag tm L) v = .ok (some (.wrongType (noKeyMsg E tag tm L) v none none)) := by
  have hk := extractTag_error hx
  simp only [tryC, colC, hm, hx, Bool.not_true, Bool.false_eq_true, if_false]
  rw [guardTry_error (by rw [hk]; exact hPT), guardCol_error (by rw [hk]; exact hPC)]
  cases L <;> exact ⟨rfl, rfl⟩

theorem tagged_bad_lookup {cs tag tm L} {v t body : Val} {e : Exc}
    (hLTk : covers (Facts.catches .taggedLookupTry) .keyError = true)
    (hLTt : covers (Facts.catches .taggedLookupTry) .typeError = true)
    (hLCk : covers (Facts.catches .taggedLookupCollect) .keyError = true)
    (hLCt : covers (Facts.catches .taggedLookupCollect) .typeError = true)
    (hm : v.isMap = true) (hx : extractTag L tag v = some (.ok (t, body))) (hl : pyLookup t tm = .error e) :
    tryC E (.tagged cs tag tm L) v = .interrupt ∧
    colC E (.tagged cs tag tm L) v =
      .ok (some (.wrongType ("tag '" ++ tag ++ "' one of " ++ tagExpOf E tm) t none none)) := by
  have hcl := pyLookup_error hl
  simp only [tryC, colC, hm, hx, hl, Bool.not_true, Bool.false_eq_true, if_false, guardTry_ok, guardCol_ok]
  rw [guardTry_error (hcl.elim (fun h => by rw [h]; exact hLTt) (fun h => by rw [h]; exact hLTk)),
    guardCol_error (hcl.elim (fun h => by rw [h]; exact hLCt) (fun h => by rw [h]; exact hLCk))]
  exact ⟨rfl, rfl⟩

theorem tagged_dispatch {cs tag tm L} {v t body : Val} {i : Nat}
    (hm : v.isMap = true) (hx : extractTag L tag v = some (.ok (t, body))) (hl : pyLookup t tm = .ok i) :
    tryC E (.tagged cs tag tm L) v = applyAt (tryCs E cs) i body ∧
    colC E (.tagged cs tag tm L) v = applyAt (colCs E cs) i body := by
  simp only [tryC, colC, hm, hx, hl, Bool.not_true, Bool.false_eq_true, if_false, guardTry_ok, guardCol_ok]
  exact ⟨trivial, trivial⟩

/-- a value comes out of a tagged union only through the dispatch -/
theorem tagged_ok_inv {cs tag tm L} {v x : Val} (h : tryC E (.tagged cs tag tm L) v = .ok x) :
    v.isMap = true ∧ ∃ t body i, extractTag L tag v = some (.ok (t, body)) ∧ pyLookup t tm = .ok i ∧
      applyAt (tryCs E cs) i body = .ok x := by
  simp only [tryC] at h
  cases hm : v.isMap with
  | false => simp [hm] at h
  | true =>
    refine ⟨rfl, ?_⟩
    simp only [hm, Bool.not_true, Bool.false_eq_true, if_false] at h
    cases hx : extractTag L tag v with
    | none => simp [hx] at h
    | some r =>
      cases r with
      | error e =>
        simp only [hx] at h
        cases hg : guardTry (Facts.catches .taggedPopTry) (Except.error e : Except Exc (Val × Val)) with
        | ok b => exact absurd hg guardTry_error_ne_ok
        | interrupt => rw [hg] at h; cases h
        | leak e => rw [hg] at h; cases h
      | ok tb =>
        obtain ⟨t, body⟩ := tb
        simp only [hx, guardTry_ok] at h
        cases hl : pyLookup t tm with
        | error e =>
          simp only [hl] at h
          cases hg : guardTry (Facts.catches .taggedLookupTry) (Except.error e : Except Exc Nat) with
          | ok b => exact absurd hg guardTry_error_ne_ok
          | interrupt => rw [hg] at h; cases h
          | leak e => rw [hg] at h; cases h
        | ok i =>
          simp only [hl, guardTry_ok] at h
          exact ⟨t, body, i, rfl, hl, h⟩

/-! ## `buildTagMap` -/

theorem buildTagMap_nil (env : Env) (tag : String) (i : Nat) (acc : List (Val × Nat)) :
    buildTagMap env tag [] i acc = .ok acc := by
  simp only [buildTagMap]

theorem buildTagMap_cons (env : Env) (tag : String) (t : Ty) (ts : List Ty) (i : Nat) (acc : List (Val × Nat)) :
    buildTagMap env tag (t :: ts) i acc =
      match tagAttr env tag t with
      | none => .error (.typeError ("Tag '" ++ tag ++ "' not found inside type"))
      | some v =>
        if !v.hashable then .error (.typeError "unhashable tag value")
        else if (Val.lookupPy v acc).isSome then .error (.typeError "Tag value matches multiple types")
        else buildTagMap env tag ts (i + 1) (acc ++ [(v, i)]) := by
  simp only [buildTagMap]; rfl

/-- Shape of a successful tag map: the declared tags of the members, in order, each with its index;
all hashable, none equal (by Python `==`) to an earlier one. -/
theorem buildTagMap_ok (env : Env) (tag : String) :
    ∀ (ts : List Ty) (i : Nat) (acc tm : List (Val × Nat)), buildTagMap env tag ts i acc = .ok tm →
      ∃ vals : List Val, ts.map (tagAttr env tag) = vals.map some ∧ tm = acc ++ vals.zipIdx i ∧
        (∀ v ∈ vals, v.hashable = true) ∧ (∀ v ∈ vals, ∀ p ∈ acc, Val.pyEq v p.1 = false) ∧
        vals.Pairwise (fun a b => Val.pyEq b a = false)
  | [], i, acc, tm, h => by
    rw [buildTagMap_nil] at h; cases h
    exact ⟨[], rfl, by simp, by simp, by simp, List.Pairwise.nil⟩
  | t :: ts, i, acc, tm, h => by
    rw [buildTagMap_cons] at h
    cases hv : tagAttr env tag t with
    | none => simp [hv] at h
    | some v =>
      simp only [hv] at h
      cases hh : v.hashable with
      | false => simp [hh] at h
      | true =>
        simp only [hh, Bool.not_true, Bool.false_eq_true, if_false] at h
        cases hl : Val.lookupPy v acc with
        | some j => simp [hl] at h
        | none =>
          simp only [hl, Option.isSome_none, Bool.false_eq_true, if_false] at h
          obtain ⟨vals, h1, h2, h3, h4, h5⟩ := buildTagMap_ok env tag ts (i + 1) _ tm h
          refine ⟨v :: vals, by simp [hv, h1], by simp [h2, List.zipIdx_cons], ?_, ?_, ?_⟩
          · intro w hw; rcases List.mem_cons.1 hw with rfl | hw
            · exact hh
            · exact h3 w hw
          · intro w hw p hp; rcases List.mem_cons.1 hw with rfl | hw
            · exact lookupPy_none_iff.1 hl p hp
            · exact h4 w hw p (List.mem_append_left _ hp)
          · exact List.Pairwise.cons (fun w hw => h4 w hw (v, i) (by simp)) h5

/-- when every member declares the tag, the only way to fail is a `TypeError` (a repeated or an
unhashable tag value) -/
theorem buildTagMap_error_kind (env : Env) (tag : String) :
    ∀ (ts : List Ty) (i : Nat) (acc : List (Val × Nat)) (e : BuildErr),
      (∀ t ∈ ts, (tagAttr env tag t).isSome = true) → buildTagMap env tag ts i acc = .error e →
      e = .typeError "unhashable tag value" ∨ e = .typeError "Tag value matches multiple types"
  | [], i, acc, e, _, h => by rw [buildTagMap_nil] at h; cases h
  | t :: ts, i, acc, e, hall, h => by
    rw [buildTagMap_cons] at h
    cases hv : tagAttr env tag t with
    | none => have := hall t List.mem_cons_self; simp [hv] at this
    | some v =>
      simp only [hv] at h
      split at h
      · cases h; exact .inl rfl
      · split at h
        · cases h; exact .inr rfl
        · exact buildTagMap_error_kind env tag ts _ _ e (fun t' ht' => hall t' (List.mem_cons_of_mem _ ht')) h

/-- a member without the tag attribute: no tag map (either this `TypeError`, or an earlier
`TypeError`) -/
theorem buildTagMap_missing (env : Env) (tag : String) :
    ∀ (ts : List Ty) (i : Nat) (acc : List (Val × Nat)),
      (∃ t ∈ ts, tagAttr env tag t = none) → ∃ e, buildTagMap env tag ts i acc = .error e
  | [], _, _, h => by obtain ⟨t, ht, _⟩ := h; cases ht
  | t :: ts, i, acc, h => by
    rw [buildTagMap_cons]
    cases hv : tagAttr env tag t with
    | none => exact ⟨_, rfl⟩
    | some v =>
      simp only []
      split
      · exact ⟨_, rfl⟩
      · split
        · exact ⟨_, rfl⟩
        · obtain ⟨t', ht', hn⟩ := h
          rcases List.mem_cons.1 ht' with rfl | ht'
          · rw [hv] at hn; cases hn
          · exact buildTagMap_missing env tag ts _ _ ⟨t', ht', hn⟩

/-- the loop over a concatenation -/
theorem buildTagMap_append (env : Env) (tag : String) :
    ∀ (pre post : List Ty) (i : Nat) (acc : List (Val × Nat)),
      buildTagMap env tag (pre ++ post) i acc =
        match buildTagMap env tag pre i acc with
        | .ok acc' => buildTagMap env tag post (i + pre.length) acc'
        | .error e => .error e
  | [], post, i, acc => by simp [buildTagMap_nil]
  | t :: pre, post, i, acc => by
    simp only [List.cons_append, buildTagMap_cons]
    cases tagAttr env tag t with
    | none => rfl
    | some v =>
      simp only []
      split
      · rfl
      · split
        · rfl
        · rw [buildTagMap_append env tag pre post]
          simp only [List.length_cons]
          rw [show i + 1 + pre.length = i + (pre.length + 1) by omega]

/-! ## `mkTy` on `Annotated[Union[…], Tagged(tag, layout)]` -/

theorem mkTy_tagged (env : Env) (mkCls : ClassEntry → Handlers → Except BuildErr Conv) (H : Handlers)
    (ts : List Ty) (tag : String) (L : Layout) :
    mkTy env mkCls H (.annotated (.union ts) [.tagged tag L]) =
      match exAll (mkTys env mkCls H ts) with
      | .error e => .error e
      | .ok cs =>
        match buildTagMap env tag ts 0 [] with
        | .ok tm => .ok (.tagged cs tag tm L)
        | .error e => .error e := by
  rw [mkTy_annotated]
  simp only [unionPartOf, annGo, Option.isSome_none, List.isEmpty_nil, Bool.not_true, Bool.or_self,
    Bool.false_eq_true, if_false]
  cases exAll (mkTys env mkCls H ts) with
  | error e => rfl
  | ok cs =>
    simp only []
    cases buildTagMap env tag ts 0 [] with
    | error e => rfl
    | ok tm => simp only [annFinish]

/-! ## Serialisation of a tagged union on a dataclass instance -/

/-- the serialiser of a tagged union on a dataclass instance whose tag attribute selects variant `i` -/
theorem intoC_tagged_obj (dyn : Val → Except Exc Val) {cs : List Conv} {tag : String} {tm : List (Val × Nat)}
    {L : Layout} {cls : String} {fs : List (String × Val)} {sf : List String} {t d : Val} {i : Nat}
    (hi : i < cs.length) (ht : getAttr tag (.obj cls fs sf) = .ok t) (hl : pyLookup t tm = .ok i)
    (hd : intoC E dyn cs[i] (.obj cls fs sf) = .ok d) :
    intoC E dyn (.tagged cs tag tm L) (.obj cls fs sf) =
      match L with
      | .internal =>
        if Facts.taggedInternalAddsTag == some true && d.isMap
            && (Val.lookupPy (.str tag) d.mapItems).isNone then
          .ok (.dict ((Val.str tag, t) :: d.mapItems))
        else .ok d
      | .external =>
        if t.hashable then .ok (.dict [(t, d)])
        else .error { cls := .typeError, msg := "TypeError: unhashable type" }
      | .adjacent tk ck => .ok (.dict (Val.dictOfPairs [(.str tk, t), (.str ck, d)])) := by
  simp only [intoC, ht, hl, intoCs_getElem?, List.getElem?_eq_getElem hi, Option.map_some, hd]
  cases L <;> rfl

theorem dictOfPairs_two {k₁ k₂ a b : Val} (h : Val.pyEq k₂ k₁ = false) :
    Val.dictOfPairs [(k₁, a), (k₂, b)] = [(k₁, a), (k₂, b)] := by
  simp [Val.dictOfPairs, Val.dictInsert, h]

theorem dictErase_head {k : Val} {a : Val} {rest : List (Val × Val)} (h : Val.pyEq k k = true) :
    dictErase k ((k, a) :: rest) = rest := by
  simp [dictErase, h]

end PaneModel
